#!/usr/bin/env python3
"""Rewrites the seeded-changes table of DESIGN.md (section 3c) from seeded/*/meta.json."""
import glob, json, os, re, sys

V = os.path.dirname(os.path.dirname(os.path.abspath(__file__)))
rows = []
for d in sorted(glob.glob(os.path.join(V, "seeded", "C*-*"))):
    mp = os.path.join(d, "meta.json")
    if not os.path.exists(mp):
        print("no meta:", d, file=sys.stderr)
        continue
    m = json.load(open(mp))
    status = "caught as built"
    if m.get("initially_missed"):
        status = "strengthened: " + m.get("strengthening", "")
    elif m.get("strengthening"):
        status += " (" + m["strengthening"] + ")"
    if m.get("outside_statement"):
        status = "not reported: " + m["outside_statement"]
    if m.get("neutralised_by"):
        status += " [neutralised on the current tree by " + m["neutralised_by"] + "]"
    cell = lambda s: s.replace("|", "\\|").replace("\n", " ")
    rows.append("| %s | %s | %s | %s |" % (os.path.basename(d), cell(m["idea"]), (", ".join(m["caught_by"]) or "—"), cell(status)))

p = os.path.join(V, "DESIGN.md")
lines = open(p).read().split("\n")
hdr = "| seeded change | idea | caught by | status |"
i = lines.index(hdr)
j = i + 2
while j < len(lines) and lines[j].startswith("| C"):
    j += 1
lines[i + 2:j] = rows
open(p, "w").write("\n".join(lines))
print("rows:", len(rows))
