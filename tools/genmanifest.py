#!/usr/bin/env python3
"""Regenerates /verif/MANIFEST.json from the table below (kept next to the code so the manifest
always lists exactly the checks that exist)."""
import json, os, sys
V = "/verif"
props = [json.loads(l) for l in open(f"{V}/properties.jsonl")]
ids = [p["id"] for p in props]

# id -> (engine, technique, level text, level note, design ref)
CHECKS = {
 "C20": ("E1", "stateless exploration of environment answers of a model KMS client (page lengths, polls, service errors) with deviation bounding on the real gcpkms Signer and Manager; exhaustive single-bit corruption of signing responses; small-scope exhaustive enumeration of all rings and all paging behaviours with the page-size constant rewritten to 3",
         "(a) 587 signing responses (every bit of signature and checksum, missing checksum, cleared verified flags, truncated/empty signature) and 5 option sets; (b) with the real page size 100: bootstrap and wipeout on ~500 (thorough ~4000) rings of N in {0,1,99,100,101,199,200,201} versions with <=1 (2) positions deviating over 7 states, every page-length choice within 1 (2) deviations and a service error at each call; rotation with k-poll generation; (c) in a second binary whose page-size constant is 3: all 1365 (thorough 21845) rings of <=5 (7) versions over {ENABLED, DISABLED, DESTROYED, PENDING} with every legal paging behaviour (full choice tree), for bootstrap and for wipeout over four keys. A returned signature implies an intact, confirmed PSS/SHA-256 exchange; bootstrap returns an ENABLED version when one exists else a pending one; rotation returns only ENABLED; wipeout leaves nothing ENABLED/DISABLED; every loop ends within a call-count horizon.",
         "Trusted: the model KMS encodes the documented List contract; the small-scope argument (loops are parametric in the page-size constant); time.After is replaced by a virtual clock through the overlay (rule 'clock').",
         "DESIGN.md#c20"),
 "C16": ("E1", "exhaustive enumeration of the product of evidence sources and environment answers (event log variants, quote formats, provider, getter outcomes, forced fetch) on the real extract.Endorsement with recording doubles; exhaustive small-domain enumeration of object names and of UEFI variable names under a scratch efivarfs root; parse-back of emitted events",
         "All 2160 combinations of 10 event-log situations x 9 supplied quotes x 4 provider behaviours x 3 getter behaviours x forced fetch run through extract.Endorsement; every requested URL must be derived from a 48-byte measurement of the supplied evidence (or be the log's URI locator), the bucket root or a placeholder-measurement URL is never requested, and unambiguous local evidence is returned byte for byte with no network access unless forced. Object names are checked for injectivity and technology separation over all measurements of <=2 bytes and 385 48-byte values; 258 (thorough 1554) UCS-2 variable names x 3 GUIDs are resolved under a scratch root with symlinks and sentinel files outside; events emitted for 4 digests must parse back to one FirmwareRIM variable locator and one digest-derived URI locator under one manifest GUID.",
         "Trusted: an event-log URI locator is treated as a legitimate network target; injectivity beyond the enumerated measurements follows from hex encoding; the emitted-events sub-check needs the overlay export.",
         "DESIGN.md#c16"),
 "C18": ("E5", "bounded-exhaustive enumeration of field-value menus (all pairs) per binary structure, real encodings compared byte for byte with an independent layout table, decode-encode round trips, every truncation/extension and reserved/out-of-range variant fed to the decoders",
         "EFI GUID, GUID-table entry, metadata-offset block, SEV-ES reset block, SEV metadata header and section, TDVF descriptor/section/metadata, PI hand-off table / resource descriptor / GUID-extension HOB (data lengths 0-17), the VMSA (every one of 48 scalar fields at 6 values against its APM offset and width, 10 segments x selector/limit/base menus, each reserved range at its documented size, off-by-one sizes and every single non-zero byte, out-of-range cpl/selector/attrib), SP800-155 Event3 (string/locator menus, zero padding 0-8, trailing garbage, every truncation), TCG crypto-agile logs (0-2 events, every truncation must be refused or re-encode to exactly the prefix) and size-prefixed strings.",
         "Trusted: the layout tables restated in the harness (APM vol. 2 table B-4, PI 1.6, PFP, edk2); PAGE_INFO has unexported fields and is covered through the digest chain in C04.",
         "DESIGN.md#c18"),
 "C19": ("E5", "bounded-exhaustive enumeration: all token sequences / short byte strings for totality of scanner, parser and evaluator; all well-typed paths to a depth bound generated from the message descriptors, evaluated on populated messages against a reference protoreflect walker; byte renderings against field bytes",
         "(i) every sequence of <=4 (thorough 5) tokens over a 23-token alphabet and every byte string of length <=3 (4) over 16 bytes is parsed and, if it parses, evaluated, under panic guard and a progress watchdog; (ii) every well-typed path with <=3 (4) field accesses generated from the descriptors of testmessage.Test and VMGoldenMeasurement - each field, list indices in and out of range, present and absent map keys of all six key kinds in several literal spellings, implicit and explicit root, wrongly typed key literals - is parsed and evaluated on messages populated with distinct values at every node, and the result is compared with walking the message through protoreflect; (iii) raw/hex/base64/auto renderings of 11 bytes fields and the raw payload/signature are compared with the exact bytes.",
         "Trusted: protoreflect as the reference walker; hand-built protopath values with a wrongly typed map key are outside the statement (it quantifies over textual paths).",
         "DESIGN.md#c19"),
 "C17": ("E5", "bounded-exhaustive full product of base policies x endorsements x configurations x flags on the real SevPolicy/TdxPolicy, against a reference derivation and a deep snapshot of the base",
         "49 endorsements (measurement tables, CA bundles of 0-3 PEM blocks, wrong PEM type, trailing garbage, SVN values, no SEV section) x 73 base policies (nil and every combination of guest policy / measurement / minimum SVN / trusted keys set equal, different or unset, with six unrelated fields set) x VMSA counts {0,1,2,9} x overwrite x allow-unspecified (57k derivations), and for TDX 5 base policies x 3 row sets x RAM {0,16,64} x overwrite: the base must be bit-identical to its snapshot and not aliased, set values survive without overwrite or the call fails, placed values are the endorsement's, trusted keys are base + bundle in order, unrelated fields are untouched.",
         "Trusted: protobuf Equal/Clone; values outside the enumerated menus behave alike (comparisons are equality / ordering on scalars).",
         "DESIGN.md#c17"),
 "C08": ("E5", "bounded-exhaustive field-level deviation enumeration over valid firmware images (every 16/32/64-bit value menu at every offset of the GUID table, SEV metadata and TDVF metadata; truncations; all tiny images; thorough: pairs) on every analysis entry point, in journaling worker processes with allocation accounting and a per-case horizon",
         "About 44k (thorough: ~1M) deviated images x 9 entry points (LaunchDigest for both products, UnsignedSnp, SevData.ExtractFromFirmware, MRTD in three modes, UnsignedTDX, the three ExtractMaterialGuestPhysicalRegions variants): menus of boundary and overflow-triggering values (2^32/12, 2^32/32, 2^63, 2^64-1, len+-1, remaining, ...) at every byte offset of the three metadata structures of a 12 KiB and a 4 KiB image, truncations, all images <=12 bytes over {00,ff}; a panic, worker death, 8 s horizon (3x confirmation at 5x) or allocation above 256 MiB + 64 x image length is a violation.",
         "Trusted: horizon and allocation constants (legitimate cost < 20 ms / < 150 MiB with the 16 MiB cap on generated sections); single-site deviations in quick, pairs only inside the TDVF metadata in thorough; images above 12 KiB are not deviated.",
         "DESIGN.md#c08"),
 "C07": ("E5", "bounded-exhaustive deviation enumeration (every truncation, byte and 32-bit substitution at every offset of genuine baselines, proto field removal, all tiny byte strings) on every relying-party entry point, executed in journaling worker processes with deterministic allocation accounting",
         "About 2.5M (thorough: 9M) inputs derived from genuine endorsements (plus 14 field-removal and CA-bundle variants), attestations in 11 accepted formats, certificate tables, event logs with SP800-155 events of every locator type and event payloads are fed to 12 entry points (verify.Endorsement, validator closure, SevValidate, policy/inspect consumers, extract.Attestation, validation of the decoded attestation, FromCertTable, extract.Endorsement from quote and from event-log file, CryptoAgileLog.Unmarshal + Locate with the real efivarfs reader, SP800155Event3.UnmarshalFromBytes, variable locators); a worker journals START/DONE per case so a panic, death (out of memory), horizon or allocation above 64 MiB + 64 x input length is attributed to its input; suspects are re-run alone 3 times at 5x horizon.",
         "Trusted: per-case horizon 20 s (legitimate cost < 50 ms) with 3x confirmation at 5x; allocation measured with runtime.MemStats.TotalAlloc at GOMAXPROCS=1; deviations are single-site (pairs of size fields only through the tiny-string enumeration).",
         "DESIGN.md#c07"),
 "C03": ("E3", "explicit exploration of key histories (bootstrap; rotate^n through the real CLI) x endorse request shapes x verification times x authorities, with every endorsement issued so far re-verified after every later command",
         "For memkm+memca, memkm+gcsca and localkm+localca the histories bootstrap, +rotate, +rotate with serial override (thorough: +rotate with a new common name a year later) are driven through cmd.MakeApp; after every command the real endorse command is run for 18 request shapes and every endorsement issued so far is verified by verify.Endorsement at start-1s/start/mid/end/end+1s of the intersection of both certificates' validity, by an independent RSA-PSS check over the raw output of the inspect commands (the documented openssl flow), and every listed measurement / MRTD is pushed through the verifier, the validator closure, SevValidate and TdxValidate for its own configuration.",
         "Trusted: crypto/rsa, crypto/x509; images are small synthetic firmware valid for both technologies; verification times are the five boundary points, not every instant.",
         "DESIGN.md#c03"),
 "C06": ("E5", "bounded-exhaustive deviation lattice over endorsement requests (all subsets of <=3/4 of 26 request deviations) on the real GoldenMeasurement/SignDoc, every document entry compared with an independent computation over the same image bytes",
         "A baseline request plus every subset of at most 3 (thorough: 4) of 26 deviations (technology subsets, VMSA counts, products, machine-shape lists incl. duplicate and unknown, early accept, SVN, ids valid/invalid, SVSM measurement, commit provenance, timestamp, images valid for one technology only or none) is run through endorse.GoldenMeasurement and endorse.SignDoc; the digest, the exact key set and every SNP value, every TDX row (order, RAM, early flag, MRTD), ids, SVN, SVSM, provenance, timestamp, certificate and the parse-back of the signed payload are compared with harness/ref; a request whose measurement must fail may not yield a document.",
         "Trusted: harness/ref (tied to the specifications by C04/C05); the discarded error of the early-accept MRTD cannot be triggered by any input found (both modes build the same-sized hand-off block), so only its visible effect (a placeholder/incorrect row) is checked.",
         "DESIGN.md#c06"),
 "C05": ("E5", "bounded-exhaustive enumeration: all pairs of small interval sets for the unaccepted-memory subtraction against a bitmap model, and all orderings/attribute assignments of valid TDVF section lists x RAM bank lists x launch modes for tdx.MRTD against an independent reference of the MEM.PAGE.ADD / MR.EXTEND record stream and hand-off block",
         "(i) 1.0M pairs of sets of <=3 disjoint intervals over 8 cells (both input orders, zero-length entries) through the exported-by-overlay unacceptedMemRanges vs a bitmap model; (ii) 45k (thorough: all orders, ~400k) images with four firmware-volume layouts, hand-off block of 1-2 pages, 0-2 temp-memory ranges, every extension-attribute assignment, 11 RAM bank lists (all six GCE shapes checked against the documented layout, banks cutting through sections, a bank ending exactly at 4 GiB) and the three launch modes: MRTD and returned regions must equal the reference built from the TDX module spec records and PI-spec HOB layouts.",
         "Trusted: crypto/sha512; early-accept-below-4GiB rule taken from the code's own comment; section sizes are pages, not megabytes; validity of metadata is the statement's precondition (temp memory flagged for extension may be refused); the interval sub-check needs the overlay export.",
         "DESIGN.md#c05"),
 "C04": ("E5", "bounded-exhaustive enumeration of firmware images (all SNP metadata section lists up to a length bound over a menu incl. malformed ones; size/content/reset-address/vCPU/product sweeps) with the real sev.LaunchDigest compared against an independent reference of the SNP_LAUNCH_UPDATE digest chain",
         "All 216k section lists of length <=3 (thorough: plus 1M lists of length 4 over a reduced menu) over kinds 1-5, four addresses (one misaligned, one whose end wraps 32 bits) and three lengths (one empty), and sweeps over image size, contents, five reset-block addresses, vCPU counts -1..240 and both products, are measured by the real code and by a reference written from the ABI text (own GUID-table walk, metadata parser, PAGE_INFO layout, VMSA (offset,width,value) table); malformed images must be rejected, accepted ones must equal the reference, two calls agree and the image is unchanged.",
         "Trusted: crypto/sha512; the boot-processor reset state is restated from the APM layout with GCE's values (an error common to that table and the repository's template text would not be seen); images are 4-12 KiB.",
         "DESIGN.md#c04"),
 "C15": ("E5", "bounded-exhaustive enumeration of the full flag product on the real endorse pipeline with recording doubles and captured stdout, each configuration compared with a real run of the same configuration",
         "All 384 combinations of dry-run / measurement-only / both, technology selection, snapshot directory, candidate name, overwrite, VMSA count, machine shapes and pre-existing files are executed through endorse.VirtualFirmware with recording CertificateAuthority, Signer, VersionControl and ChangeOps doubles; no workspace, write or commit may occur, measurement-only may not touch keys or CA, printed measurements (and the digest handed to the signer in dry-run) must equal those of a real run; 18 CLI runs check the flag wiring over localnonvcs on disk.",
         "Trusted: dry-run's signed digest is compared with the real run's only when the SNP table has at most one entry (Go protobuf marshals maps in random order); images are small synthetic firmware.",
         "DESIGN.md#c15"),
 "C13": ("E3", "explicit-state BFS to closure over histories of real endorse.VirtualFirmware runs (3 images x 3 names x overwrite x snapshot), canonical manifest/file state, invariants per state and per transition; plus exhaustive small-scope check of the merge function against a two-map reference",
         "The closure of reachable manifest/file states (891 canonical states per back end, 36 actions from each) is explored through the real signing and commit path over an in-memory version-control double and over localnonvcs on disk; in every state the manifest parses, paths and digests are unique and every entry names an existing file endorsing the listed digest; on every transition the latest run is indexed under the file it wrote and no endorsement file is replaced without overwrite. The unexported merge function is additionally compared with a two-map reference on all manifests of <=3 entries.",
         "Trusted: pools of 3 images x 3 names contain every case of the four-way merge (larger pools add no new abstract state); canonical form ignores timestamps and signature bytes; the merge sub-check needs the overlay export (degraded otherwise).",
         "DESIGN.md#c13"),
 "C12": ("E3", "explicit-state breadth-first search over histories of the real CLI commands (bootstrap/rotate/wipeout with flag variants) on cloned worlds, canonical-state deduplication, invariants evaluated in every state and on every transition",
         "From the empty world every sequence of 8 (thorough: 12) command variants up to depth 4 (thorough: 5) is executed through cmd.MakeApp for memkm+memca, memkm+gcsca and localkm+localca; in every reached state the root and signing certificate profiles, lifetimes, serial arithmetic, issuer, no-clobber, key liveness, naming and wipeout clauses of the statement are checked from certificates and keys read back from durable state.",
         "Trusted: canonical form drops key bits and signatures (no command branches on them); Cloud KMS manager is covered by C20; naming epochs restart at bootstrap and key wipeout (loosest reading that keeps content, see assumptions in evidence).",
         "DESIGN.md#c12"),
 "C11": ("E4", "exhaustive crash-point enumeration: every prefix of every permutation (of the map-ordered certificate uploads) of the object-write log recorded from the real bootstrap and rotations, each crash store reloaded and checked",
         "The write log of a first bootstrap, of two (thorough: three) successive rotations and of a rotation retried with --overwrite after a crash is recorded from the real code over a logging storage client; every order in which one Finalize may upload its pending certificates and every prefix of each ordered log is materialised, then read back raw, through a fresh gcsca authority, and on local disk through storage/local + localca's start-up check; repeated real bootstraps must produce one of the enumerated orders (conformance of the map-order model).",
         "Trusted: object granularity (a closed writer is atomic and durable), as the property states; the space is small because the code performs 2-4 writes per operation - the value is that it is derived from the recorded log and therefore follows any reordering of the code.",
         "DESIGN.md#c11"),
 "C10": ("E4", "exhaustive fault/crash-point enumeration over the seam calls of the real rotate.Key (choice tree with deviation bound), with reload of the authority and a post-fault invariant plus a destroy-time monitor",
         "Every call one rotation makes to the key manager, signer, certificate authority and (for gcsca) storage is a choice point {ok, fault, crash-after}; all single deviations (quick) and all pairs (thorough) are executed from two pre-states for memkm+memca, memkm+gcsca and localkm+localca; afterwards the authority is reloaded from durable state and the recorded primary key must be live, certified, chained to the root and able to endorse; the old key may only be destroyed once the new primary is durable; a fault-free --overwrite rotation must then succeed.",
         "Trusted: the harness's in-memory object store models storage at object granularity; memkm key material is treated as durable ('the key service'); the Cloud KMS manager is covered by C20, not here; local-storage faults are injected at the authority/key-manager seam only (local.StorageClient cannot be decorated without breaking localca's type check).",
         "DESIGN.md#c10"),
 "C09": ("E2", "stateless model checking of the real validators under a cooperative scheduler: preemption-bounded DFS over all interleavings at statement granularity (points woven in mechanically), results compared with isolated runs",
         "11 scenarios of 2-3 calls (one closure, two closures over one Options, family+default closures, preset endorsement, shared getter, sequential reuse, closure + plain verify sharing Options, SevValidate with shared options) are explored for every schedule with at most 2 (quick) / 3 (thorough) preemptions, with a scheduling point before every statement of verify/verify.go and gcetcbendorsement/sevvalidate.go; every call must return its isolated result. Thorough adds a separate free-running -race pass.",
         "Trusted: interleaving at statement granularity (sub-statement memory-model effects only via the -race pass); go-sev-guest validate is not instrumented (it holds no state shared between calls); schedules with more preemptions than the bound are not explored.",
         "DESIGN.md#c09"),
 "C01": ("E5", "bounded-exhaustive deviation lattice over a genuine endorsement (all signature bits, payload bits, structural signature/certificate/root/time deviations) on every verification entry point, against an independent crypto/rsa+crypto/x509 reference",
         "Every single-bit corruption of the signature, strided (quick) or every (thorough) bit of the payload and of the serialized container, 27 structural re-signings and swaps, 6 root sets and 6 verification times are run through 14 entry points (library, validator closures in all three endorsement-supply modes, SevValidate x3, TdxValidate, signer-side verify, and the verify / sev validate / tdx validate CLI in-process); acceptance must imply authenticity under the reference verifier.",
         "Trusted: crypto/rsa and crypto/x509 as reference; forgeries outside the enumerated deviation classes rest on the cryptographic assumption; CLI paths need the overlay export of the backend key.",
         "DESIGN.md#c01"),
 "C02": ("E5", "bounded-exhaustive enumeration of the full product tables x measurements x configurations x entry points on the real validators, against a reference Listed(config) model",
         "Every combination of 16 endorsed tables (all subsets of VMSA counts/SVSM and of TDX rows), report measurements including one-bit neighbours and wrong lengths, requested VMSA counts / RAM sizes, expected digests and 9 entry points (library, validator closure, SevValidate, TdxValidate, policy derivation, the sev/tdx validate CLI run in-process) is executed; acceptance must imply membership in the reference Listed(config) set and an unlisted configuration must be rejected.",
         "Trusted: measurement values outside the enumerated alphabet behave like the enumerated ones (comparison is byte equality); go-sev-guest/go-tdx-guest validate as published; the in-process CLI path needs the overlay export of the backend context key (degraded if it no longer compiles).",
         "DESIGN.md#c02"),
 "C14": ("E1", "stateless exhaustive exploration of the environment-answer choice tree (scripted VCS back end) on the real endorse pipeline",
         "Every sequence of per-attempt back-end outcomes (ok / retriable / permanent at each of the 7 seam calls, concurrent writer before an attempt or at commit) is enumerated for every retry budget -2..2 (3 in thorough), each on the real endorse.VirtualFirmware; attempts, retry causes, workspace freshness/release, honesty of the result and preservation of concurrent manifest entries are checked on every execution.",
         "Trusted: the scripted VersionControl/ChangeOps double (snapshot-per-workspace, conflict on moved head) models a real VCS; budgets above 3 are not explored (the loop is parametric in the budget).",
         "DESIGN.md#c14"),
}
NA_REASON = "not claimed"

def main():
    checks = []
    for i in ids:
        if i not in CHECKS: continue
        eng, tech, text, note, ref = CHECKS[i]
        checks.append({
            "property_id": i,
            "quick_cmd": f"./check {i} quick",
            "thorough_cmd": f"./check {i} thorough",
            "evidence_file": f"/verif/evidence/{i}.json",
            "replay_cmd_template": f"./check {i} --replay {{path}}",
            "engine": eng,
            "level_claimed": {"category": "model_checking", "text": text, "design_ref": ref},
            "level_note": note,
            "technique": tech,
        })
    m = {
        "version": 1,
        "setup_cmd": "./setup.sh",
        "hooks": {
            "guard": "verif",
            "enable": "go build -tags verif -overlay <generated by harness/cmd/instr>: hooks are add-only files and mechanically instrumented copies injected by the build overlay; /repo itself carries no hook code",
            "baseline_off_cmd": "cd /repo && for m in . gcetcbendorsement; do (cd /repo/$m && go test -json -vet=off -count=1 -timeout 25m ./...); done",
            "source_commits": [],
            "add_only": True,
        },
        "engines": [
            {"name": "E1", "path": "harness/mc/explore.go", "serves_properties": ["C10", "C14", "C16", "C20"], "kind_free_text": "stateless choice-tree explorer with deviation bounding (environment answers, faults)"},
            {"name": "E2", "path": "harness/mc/sched.go", "serves_properties": ["C09"], "kind_free_text": "cooperative scheduler + preemption-bounded DFS over statement-level points woven in by harness/cmd/instr"},
            {"name": "E3", "path": "harness/mc/bfs.go", "serves_properties": ["C03", "C12", "C13"], "kind_free_text": "explicit-state BFS over command histories with canonical-state deduplication"},
            {"name": "E4", "path": "harness/mc/explore.go", "serves_properties": ["C10", "C11"], "kind_free_text": "crash-point / fault-point enumeration over recorded seam-call and write logs"},
            {"name": "E5", "path": "harness/mc/enum.go", "serves_properties": ["C01", "C02", "C04", "C05", "C06", "C07", "C08", "C15", "C17", "C18", "C19"], "kind_free_text": "bounded-exhaustive deviation lattice against Go reference models"},
        ],
        "checks": checks,
        "not_applicable": [{"property_id": i, "reason": NA_REASON} for i in ids if i not in CHECKS],
        "notes": "All checks are exhaustive enumerations within the bounds named in each evidence file; see DESIGN.md.",
    }
    json.dump(m, open(f"{V}/MANIFEST.json", "w"), indent=1)
    print("checks:", len(checks), "not_applicable:", len(m["not_applicable"]))

main()
