#!/bin/bash
# usage: tools/mutant.sh <patch.diff> <Cxx> [tier]   — applies the patch to /repo, runs the check, reverts.
# Prints CAUGHT if the check exits 1 with a VIOLATION line, MISSED if it exits 0.
set -u
patch=$(readlink -f "$1"); P=$2; tier=${3:-quick}
cd /repo || exit 2
if ! git diff --quiet; then echo "/repo working tree not clean"; exit 2; fi
git apply "$patch" || { echo "patch does not apply"; exit 2; }
mkdir -p /verif/build/mutant-root; cp /verif/known_findings.json /verif/build/mutant-root/ 2>/dev/null; out=$(cd /verif && VERIF_ROOT=/verif/build/mutant-root ./check $P $tier 2>&1); rc=$?
git checkout -- . ; git clean -fdq -- . 2>/dev/null
echo "$out" | grep -E "VIOLATION|KNOWN-FINDING|harness error|^  key=" | head -12
if [ $rc -eq 1 ] && echo "$out" | grep -q "^VIOLATION property=$P"; then echo "CAUGHT $(basename $patch) by $P"; exit 0; fi
if [ $rc -eq 0 ]; then echo "MISSED $(basename $patch) by $P"; exit 1; fi
echo "ERROR rc=$rc $(basename $patch)"; echo "$out" | tail -5; exit 2
