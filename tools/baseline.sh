#!/bin/bash
# Runs the repository's own suite (guard off, exactly as /root/.vp/BASELINE.json does) and compares
# the set of passing tests with the 596 stable passes. Exit 0 iff none is missing.
export GOFLAGS= GOPROXY=off GOSUMDB=off
out=$(mktemp)
for m in . gcetcbendorsement; do (cd /repo/$m && go test -json -vet=off -count=1 -timeout 25m ./... ) ; done > $out 2>/dev/null
python3 - "$out" <<'PY'
import json,sys
base=set(json.load(open('/root/.vp/BASELINE.json'))['stable_pass'])
passed=set()
for l in open(sys.argv[1]):
    try: e=json.loads(l)
    except: continue
    if e.get('Action')=='pass' and e.get('Test'):
        passed.add(f"{e['Package']}::{e['Test']}")
missing=sorted(base-passed)
print(f"baseline={len(base)} passed_now={len(passed)} missing={len(missing)}")
for m in missing[:20]: print("  MISSING", m)
sys.exit(1 if missing else 0)
PY
rc=$?; rm -f $out; exit $rc
