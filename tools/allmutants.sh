#!/bin/bash
# usage: tools/allmutants.sh [Cxx ...]  — runs every own mutant and every seeded change of the given
# properties (default: all) against its check (quick tier) and prints one CAUGHT/MISSED line each.
cd /verif
props="$*"; [ -z "$props" ] && props=$(jq -r .id properties.jsonl)
for P in $props; do
  for m in mutants/$P-*.diff seeded/$P-*/patch.diff; do
    [ -f "$m" ] || continue
    if [ -f "$(dirname $m)/meta.json" ] && jq -e .neutralised_by "$(dirname $m)/meta.json" >/dev/null; then echo "$P $m: SKIPPED (neutralised by a later repair)"; continue; fi
    if [ -f "$(dirname $m)/meta.json" ] && jq -e .outside_statement "$(dirname $m)/meta.json" >/dev/null; then echo "$P $m: SKIPPED (outside the statement: $(tools/mutant.sh "$m" $P quick 2>&1 | tail -n 1))"; continue; fi
    tier=quick
    [ -f "$(dirname $m)/meta.json" ] && t=$(jq -r '.tier // "quick"' "$(dirname $m)/meta.json") && tier=$t
    res=$(tools/mutant.sh "$m" $P $tier 2>&1 | tail -n 1)
    echo "$P $m: $res"
  done
done
