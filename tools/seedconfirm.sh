#!/bin/bash
# usage: tools/seedconfirm.sh <ID> <patch.diff> <demo source file> <repo-relative demo destination> <go test package dir> <run regexp>
# Confirms in a fresh scratch worktree of /repo HEAD: patch applies, builds, repo suite still passes,
# demo fails with the patch and passes without it. Prints a summary; removes the worktree.
set -u
ID=$1; PATCH=$(readlink -f $2); DEMO=$(readlink -f $3); DEST=$4; PKG=$5; RUN=$6
WT=/tmp/seedconfirm-$ID
export GOFLAGS= GOPROXY=off GOSUMDB=off GOTOOLCHAIN=local
git -C /repo worktree remove --force $WT 2>/dev/null; rm -rf $WT
git -C /repo worktree add -q --detach $WT HEAD || exit 2
cd $WT
res=""
if ! git apply --check "$PATCH" 2>/dev/null; then echo "$ID: patch does not apply to current HEAD"; git -C /repo worktree remove --force $WT; exit 3; fi
# without patch: demo must pass
mkdir -p "$(dirname "$DEST")"; cp "$DEMO" "$DEST"
(cd $WT/$PKG/.. >/dev/null 2>&1; true)
if go test -vet=off -count=1 -run "$RUN" ./$PKG/ >/tmp/seedconfirm-$ID.clean.log 2>&1; then res="$res demo-passes-on-clean"; else res="$res DEMO-FAILS-ON-CLEAN"; fi
git apply "$PATCH"
if go build ./... >/dev/null 2>&1 && (cd gcetcbendorsement && go build ./... >/dev/null 2>&1); then res="$res builds"; else res="$res BUILD-FAILS"; fi
if go test -vet=off -count=1 -run "$RUN" ./$PKG/ >/tmp/seedconfirm-$ID.patched.log 2>&1; then res="$res DEMO-PASSES-WITH-PATCH"; else res="$res demo-fails-with-patch"; fi
rm -f "$DEST"
# repository suite with the patch (baseline comparison)
out=$(mktemp)
for m in . gcetcbendorsement; do (cd $WT/$m && go test -json -vet=off -count=1 -timeout 25m ./... ) ; done > $out 2>/dev/null
python3 - "$out" <<'PY'
import json,sys
base=set(json.load(open('/root/.vp/BASELINE.json'))['stable_pass'])
passed=set()
for l in open(sys.argv[1]):
    try: e=json.loads(l)
    except: continue
    if e.get('Action')=='pass' and e.get('Test'):
        passed.add(f"{e['Package']}::{e['Test']}")
missing=sorted(base-passed)
print(f"  suite-with-patch: missing={len(missing)}", missing[:5])
PY
rm -f $out
echo "$ID:$res"
cd /; git -C /repo worktree remove --force $WT
