package ref

import (
	"crypto/sha512"
	"encoding/binary"
	"fmt"
	"sort"
)

// TdxSection is one TDVF metadata section.
type TdxSection struct {
	DataOffset, DataSize   uint32
	MemoryBase, MemorySize uint64
	Type, Attributes       uint32
}

// Interval is [Start, Start+Length).
type Interval struct{ Start, Length uint64 }

// ParseTdx locates and decodes the TDVF metadata.
func ParseTdx(img []byte) ([]TdxSection, error) {
	tab, ok := GuidTable(img)
	if !ok {
		return nil, fmt.Errorf("reference: GUID table malformed")
	}
	blk, ok := tab[EfiGUID(tdxMetaOffGUID)]
	if !ok || len(blk) < 4 {
		return nil, fmt.Errorf("reference: no TDX metadata offset block")
	}
	off := uint64(binary.LittleEndian.Uint32(blk))
	if off < 16 || off+16 > uint64(len(img)) {
		return nil, fmt.Errorf("reference: metadata offset out of range")
	}
	desc := uint64(len(img)) - off
	g := EfiGUID(tdxMetaGUID)
	if string(img[desc-16:desc]) != string(g[:]) {
		return nil, fmt.Errorf("reference: metadata GUID mismatch")
	}
	d := img[desc:]
	if len(d) < 16 || string(d[0:4]) != "TDVF" {
		return nil, fmt.Errorf("reference: bad descriptor signature")
	}
	length := uint64(binary.LittleEndian.Uint32(d[4:]))
	version := binary.LittleEndian.Uint32(d[8:])
	count := uint64(binary.LittleEndian.Uint32(d[12:]))
	if version != 1 || length != 16+32*count || 16+32*count > uint64(len(d)) {
		return nil, fmt.Errorf("reference: descriptor inconsistent")
	}
	var out []TdxSection
	for i := uint64(0); i < count; i++ {
		s := d[16+32*i:]
		out = append(out, TdxSection{
			DataOffset: binary.LittleEndian.Uint32(s[0:]), DataSize: binary.LittleEndian.Uint32(s[4:]),
			MemoryBase: binary.LittleEndian.Uint64(s[8:]), MemorySize: binary.LittleEndian.Uint64(s[16:]),
			Type: binary.LittleEndian.Uint32(s[24:]), Attributes: binary.LittleEndian.Uint32(s[28:])})
	}
	return out, nil
}

// TdxValid is the notion of "valid TDVF metadata" used as the precondition of the comparison:
// known section types, one hand-off block, a boot firmware volume, firmware volumes inside the
// image with memory size = data size and together covering the image, page-aligned non-wrapping
// disjoint memory ranges of bounded size.
func TdxValid(img []byte, secs []TdxSection) error {
	hob, bfv := 0, 0
	var fv uint64
	type iv struct{ lo, hi uint64 }
	var ivs []iv
	for _, s := range secs {
		switch s.Type {
		case 0, 1:
			if s.Type == 0 {
				bfv++
			}
			if s.DataSize == 0 || uint64(s.DataOffset)+uint64(s.DataSize) > uint64(len(img)) || s.MemorySize != uint64(s.DataSize) {
				return fmt.Errorf("reference: firmware volume section out of range")
			}
			fv += uint64(s.DataSize)
		case 2:
			hob++
		case 3:
		default:
			return fmt.Errorf("reference: unknown section type")
		}
		if s.MemoryBase%4096 != 0 || s.MemorySize%4096 != 0 || s.MemorySize == 0 || s.MemorySize > 1<<26 || s.MemoryBase+s.MemorySize < s.MemoryBase {
			return fmt.Errorf("reference: memory range not page aligned / empty / too large / wrapping")
		}
		ivs = append(ivs, iv{s.MemoryBase, s.MemoryBase + s.MemorySize})
	}
	if hob != 1 || bfv == 0 || fv != uint64(len(img)) {
		return fmt.Errorf("reference: need exactly one hand-off block, a BFV, and volumes covering the image")
	}
	sort.Slice(ivs, func(i, j int) bool { return ivs[i].lo < ivs[j].lo })
	for i := 0; i+1 < len(ivs); i++ {
		if ivs[i].hi > ivs[i+1].lo {
			return fmt.Errorf("reference: overlapping sections")
		}
	}
	return nil
}

// Unaccepted returns, bank by bank in ascending order, the parts of each RAM bank not covered by
// a private interval. Inputs are assumed to be sets of pairwise disjoint intervals.
func Unaccepted(private, ram []Interval) []Interval {
	clean := func(in []Interval) []Interval {
		var out []Interval
		for _, x := range in {
			if x.Length != 0 {
				out = append(out, x)
			}
		}
		sort.Slice(out, func(i, j int) bool { return out[i].Start < out[j].Start })
		return out
	}
	ps, rs := clean(private), clean(ram)
	var out []Interval
	for _, r := range rs {
		cur, end := r.Start, r.Start+r.Length
		for _, p := range ps {
			pe := p.Start + p.Length
			if pe <= cur {
				continue
			}
			if p.Start >= end {
				break
			}
			if p.Start > cur {
				out = append(out, Interval{cur, p.Start - cur})
			}
			if pe > cur {
				cur = pe
			}
			if cur >= end {
				break
			}
		}
		if cur < end {
			out = append(out, Interval{cur, end - cur})
		}
	}
	return out
}

// UnacceptedBitmap is a second, cell-by-cell model for small domains [0,n).
func UnacceptedBitmap(private, ram []Interval, n uint64) []Interval {
	priv := make([]bool, n)
	for _, p := range private {
		for a := p.Start; a < p.Start+p.Length && a < n; a++ {
			priv[a] = true
		}
	}
	rs := append([]Interval(nil), ram...)
	sort.Slice(rs, func(i, j int) bool { return rs[i].Start < rs[j].Start })
	var out []Interval
	for _, r := range rs {
		var run *Interval
		for a := r.Start; a < r.Start+r.Length && a < n; a++ {
			if !priv[a] {
				if run == nil {
					run = &Interval{a, 0}
				}
				run.Length++
			} else if run != nil {
				out = append(out, *run)
				run = nil
			}
		}
		if run != nil {
			out = append(out, *run)
		}
	}
	return out
}

// Region is one measured region.
type Region struct {
	Base   uint64
	Size   uint64
	Data   []byte // nil when no contents are defined (page-add only)
	Extend bool
}

const (
	attrPresentInitTested = 7
	attrEarlyAccept       = 0x10000000
)

// HandOffBlock builds the TD hand-off block for the declared sections (in declared order) and the
// unaccepted ranges, padded to size.
func HandOffBlock(base, size uint64, secs []TdxSection, unaccepted []Interval, earlyAcceptAbove4G bool) ([]byte, error) {
	n := len(secs) + len(unaccepted)
	var b []byte
	put16 := func(v uint16) { b = binary.LittleEndian.AppendUint16(b, v) }
	put32 := func(v uint32) { b = binary.LittleEndian.AppendUint32(b, v) }
	put64 := func(v uint64) { b = binary.LittleEndian.AppendUint64(b, v) }
	// PHIT
	put16(1)
	put16(56)
	put32(0)
	put32(9)
	put32(0) // BOOT_WITH_FULL_CONFIGURATION
	put64(0)
	put64(0)
	put64(0)
	put64(0)
	put64(base + 56 + 48*uint64(n))
	res := func(typ uint32, attr uint32, start, length uint64) {
		put16(3)
		put16(48)
		put32(0)
		b = append(b, make([]byte, 16)...) // owner
		put32(typ)
		put32(attr)
		put64(start)
		put64(length)
	}
	for _, s := range secs {
		res(0, attrPresentInitTested, s.MemoryBase, s.MemorySize)
	}
	for _, u := range unaccepted {
		attr := uint32(attrPresentInitTested)
		if u.Start+u.Length <= 4<<30 || earlyAcceptAbove4G {
			attr |= attrEarlyAccept
		}
		res(7, attr, u.Start, u.Length)
	}
	put16(0xffff)
	put16(8)
	put32(0)
	if uint64(len(b)) > size {
		return nil, fmt.Errorf("reference: hand-off block does not fit its section")
	}
	return append(b, make([]byte, size-uint64(len(b)))...), nil
}

// TdxMode selects one of the three launch configurations.
type TdxMode int

const (
	// ModeDefault measures only sections flagged for extension; no RAM banks.
	ModeDefault TdxMode = iota
	// ModeLegacyMeasureAll measures every section; unaccepted memory above 4 GiB is not early-accept.
	ModeLegacyMeasureAll
	// ModeLegacyMeasureAllEarlyAccept measures every section; all unaccepted memory is early-accept.
	ModeLegacyMeasureAllEarlyAccept
)

// Regions builds the measured regions for an image with valid metadata.
func Regions(img []byte, secs []TdxSection, banks []Interval, mode TdxMode) ([]Region, error) {
	measureAll := mode != ModeDefault
	var private []Interval
	for _, s := range secs {
		private = append(private, Interval{s.MemoryBase, s.MemorySize})
	}
	if mode == ModeDefault {
		banks = nil
	}
	un := Unaccepted(private, banks)
	var out []Region
	for _, s := range secs {
		r := Region{Base: s.MemoryBase, Size: s.MemorySize, Extend: measureAll || s.Attributes&1 != 0}
		switch s.Type {
		case 0, 1:
			r.Data = img[s.DataOffset : uint64(s.DataOffset)+s.MemorySize]
		case 2:
			hob, err := HandOffBlock(s.MemoryBase, s.MemorySize, secs, un, mode == ModeLegacyMeasureAllEarlyAccept)
			if err != nil {
				return nil, err
			}
			r.Data = hob
		case 3:
			if r.Extend {
				r.Data = make([]byte, s.MemorySize)
			}
		}
		out = append(out, r)
	}
	return out, nil
}

// MRTD hashes the TDH.MEM.PAGE.ADD / TDH.MR.EXTEND record stream.
func MRTD(regions []Region) ([48]byte, error) {
	h := sha512.New384()
	for _, r := range regions {
		if r.Extend && uint64(len(r.Data)) != r.Size {
			return [48]byte{}, fmt.Errorf("reference: extended region without full contents")
		}
		for off := uint64(0); off < r.Size; off += 4096 {
			var rec [128]byte
			copy(rec[:], "MEM.PAGE.ADD")
			binary.LittleEndian.PutUint64(rec[16:], r.Base+off)
			h.Write(rec[:])
			if r.Extend {
				for c := uint64(0); c < 4096; c += 256 {
					var e [128]byte
					copy(e[:], "MR.EXTEND")
					binary.LittleEndian.PutUint64(e[16:], r.Base+off+c)
					h.Write(e[:])
					h.Write(r.Data[off+c : off+c+256])
				}
			}
		}
	}
	var d [48]byte
	copy(d[:], h.Sum(nil))
	return d, nil
}

// ShapeBanks is the documented GCE RAM bank layout per machine shape: 3 GiB below the MMIO hole,
// the top 2 MiB under 4 GiB for the firmware, then the rest above 4 GiB split across NUMA nodes of
// at most 176 GiB (the first node already holds the 3 GiB below the hole).
func ShapeBanks(shape string) []Interval {
	const gib = uint64(1) << 30
	sizes := map[string][2]uint64{"c3-standard-4": {16, 1}, "c3-standard-8": {32, 1}, "c3-standard-22": {88, 1},
		"c3-standard-44": {176, 1}, "c3-standard-88": {352, 2}, "c3-standard-176": {704, 4}}
	sz, ok := sizes[shape]
	if !ok {
		return nil
	}
	out := []Interval{{0, 3 * gib}, {4*gib - 2<<20, 2 << 20}}
	remaining := sz[0]*gib - 3*gib
	start := 4 * gib
	for node := uint64(0); node < sz[1]; node++ {
		capN := 176 * gib
		if node == 0 {
			capN -= 3 * gib
		}
		l := capN
		if remaining < l {
			l = remaining
		}
		out = append(out, Interval{start, l})
		start += l
		remaining -= l
	}
	return out
}

// ShapeRAMGiB is the RAM size of a shape in GiB (0 if unknown).
func ShapeRAMGiB(shape string) uint32 {
	return map[string]uint32{"c3-standard-4": 16, "c3-standard-8": 32, "c3-standard-22": 88, "c3-standard-44": 176, "c3-standard-88": 352, "c3-standard-176": 704}[shape]
}
