// Package ref holds reference models written from the specifications (AMD SEV-SNP ABI, AMD APM
// vol. 2 VMSA layout, Intel TDX module spec, PI spec HOBs, edk2 GUID-table layout), independent of
// the repository's code: they import nothing from /repo.
package ref

import (
	"crypto/sha512"
	"encoding/binary"
	"fmt"
	"sort"
)

// GUIDs in EFI mixed-endian byte form are compared as bytes produced by EfiGUID below.
const (
	footerGUID     = "96b582de-1fb2-45f7-baea-a366c55a082d"
	sevEsResetGUID = "00f771de-1a7e-4fcb-890e-68c77e2fb44e"
	sevMetaOffGUID = "dc886566-984a-4798-a75e-5585a7bf67cc"
	tdxMetaOffGUID = "e47a6535-984a-4798-865e-4685a7bf8ec2"
	tdxMetaGUID    = "e9eaf9f3-168e-44d5-a8eb-7f4d8738f6ae"
)

func hexNibble(c byte) byte {
	switch {
	case c >= '0' && c <= '9':
		return c - '0'
	case c >= 'a' && c <= 'f':
		return c - 'a' + 10
	}
	return c - 'A' + 10
}

// EfiGUID encodes a textual GUID as EFI_GUID bytes (first three fields little-endian).
func EfiGUID(s string) [16]byte {
	var raw []byte
	for i := 0; i < len(s); i++ {
		if s[i] == '-' {
			continue
		}
		raw = append(raw, s[i])
	}
	var b [16]byte
	for i := 0; i < 16; i++ {
		b[i] = hexNibble(raw[2*i])<<4 | hexNibble(raw[2*i+1])
	}
	return [16]byte{b[3], b[2], b[1], b[0], b[5], b[4], b[7], b[6], b[8], b[9], b[10], b[11], b[12], b[13], b[14], b[15]}
}

// GuidTable walks the firmware GUID table from the end of the image and returns GUID -> data
// (the bytes preceding each {size,guid} trailer). ok=false when the table is malformed.
func GuidTable(img []byte) (map[[16]byte][]byte, bool) {
	const endOff, hdr = 0x20, 18
	if len(img) < endOff+hdr {
		return nil, false
	}
	fpos := len(img) - endOff - hdr
	var g [16]byte
	copy(g[:], img[fpos+2:fpos+18])
	if g != EfiGUID(footerGUID) {
		return nil, false
	}
	total := int(binary.LittleEndian.Uint16(img[fpos:]))
	if total < hdr || len(img) < total+endOff {
		return nil, false
	}
	start := len(img) - endOff - total
	table := img[start:fpos]
	out := map[[16]byte][]byte{}
	rem := len(table)
	for rem > 0 {
		if rem < hdr {
			return nil, false
		}
		sz := int(binary.LittleEndian.Uint16(table[rem-hdr:]))
		var eg [16]byte
		copy(eg[:], table[rem-hdr+2:rem])
		if sz < hdr || sz > rem {
			return nil, false
		}
		if _, dup := out[eg]; dup {
			return nil, false
		}
		out[eg] = table[rem-sz : rem-hdr]
		rem -= sz
	}
	return out, true
}

// SevSection is one declared SNP metadata range.
type SevSection struct{ Address, Length, Kind uint32 }

// SevInfo is what the reference parser extracts for SEV-SNP.
type SevInfo struct {
	ResetAddr uint32
	Sections  []SevSection
}

// ParseSev extracts the SEV-ES reset block and the SNP metadata sections.
func ParseSev(img []byte) (*SevInfo, bool) {
	tab, ok := GuidTable(img)
	if !ok {
		return nil, false
	}
	rb, ok := tab[EfiGUID(sevEsResetGUID)]
	if !ok || len(rb) != 4 {
		return nil, false
	}
	mo, ok := tab[EfiGUID(sevMetaOffGUID)]
	if !ok || len(mo) != 4 {
		return nil, false
	}
	info := &SevInfo{ResetAddr: binary.LittleEndian.Uint32(rb)}
	off := uint64(binary.LittleEndian.Uint32(mo))
	if off > uint64(len(img)) || off < 16 {
		return nil, false
	}
	m := img[uint64(len(img))-off:]
	if string(m[0:4]) != "ASEV" {
		return nil, false
	}
	length := uint64(binary.LittleEndian.Uint32(m[4:]))
	count := uint64(binary.LittleEndian.Uint32(m[12:]))
	if length != 16+12*count || length > off {
		return nil, false
	}
	for i := uint64(0); i < count; i++ {
		s := m[16+12*i:]
		info.Sections = append(info.Sections, SevSection{binary.LittleEndian.Uint32(s), binary.LittleEndian.Uint32(s[4:]), binary.LittleEndian.Uint32(s[8:])})
	}
	return info, true
}

// SNP page types (SNP ABI, SNP_LAUNCH_UPDATE PAGE_TYPE encodings).
const (
	pageNormal     = 1
	pageVmsa       = 2
	pageZero       = 3
	pageUnmeasured = 4
	pageSecrets    = 5
	pageCpuid      = 6
)

// SevWellFormed applies the property's list of malformations with 64-bit arithmetic.
func SevWellFormed(secs []SevSection) (bool, string) {
	seen := map[uint32]int{}
	type iv struct{ lo, hi uint64 }
	var ivs []iv
	for _, s := range secs {
		if s.Kind < 1 || s.Kind > 4 {
			return false, "unknown kind"
		}
		if s.Length == 0 || s.Length%4096 != 0 {
			return false, "empty or misaligned length"
		}
		if s.Address%4096 != 0 {
			return false, "misaligned address"
		}
		seen[s.Kind]++
		ivs = append(ivs, iv{uint64(s.Address), uint64(s.Address) + uint64(s.Length)})
	}
	if seen[2] > 1 || seen[3] > 1 {
		return false, "duplicate secrets or CPUID page"
	}
	if seen[1] == 0 || seen[2] == 0 || seen[3] == 0 {
		return false, "missing mandatory kind"
	}
	sort.Slice(ivs, func(i, j int) bool { return ivs[i].lo < ivs[j].lo })
	for i := 0; i+1 < len(ivs); i++ {
		if ivs[i].hi > ivs[i+1].lo {
			return false, "overlap"
		}
	}
	return true, ""
}

type field struct {
	off, width int
	val        uint64
}

// resetState is the boot-processor VMSA as (offset, width, value) per AMD APM vol. 2 table B-4;
// values are the x86 reset state as launched by the GCE hypervisor (g_pat as written by GCE).
var resetState = []field{
	{0x02, 2, 0x0093}, {0x04, 4, 0xffff}, // es attrib, limit
	{0x10, 2, 0xf000}, {0x12, 2, 0x009b}, {0x14, 4, 0xffff}, {0x18, 8, 0xffff0000}, // cs
	{0x22, 2, 0x0093}, {0x24, 4, 0xffff}, // ss
	{0x32, 2, 0x0093}, {0x34, 4, 0xffff}, // ds
	{0x42, 2, 0x0093}, {0x44, 4, 0xffff}, // fs
	{0x52, 2, 0x0093}, {0x54, 4, 0xffff}, // gs
	{0x64, 4, 0xffff},                    // gdtr limit
	{0x72, 2, 0x0082}, {0x74, 4, 0xffff}, // ldtr
	{0x84, 4, 0xffff},                    // idtr limit
	{0x92, 2, 0x008b}, {0x94, 4, 0xffff}, // tr
	{0xd0, 8, 0x1000},      // efer (SVME)
	{0x148, 8, 0x40},       // cr4 (MCE)
	{0x158, 8, 0x10},       // cr0 (ET)
	{0x160, 8, 0x400},      // dr7
	{0x168, 8, 0xffff0ff0}, // dr6
	{0x170, 8, 0x2},        // rflags
	{0x178, 8, 0xfff0},     // rip
	{0x268, 8, 0x00070106}, // g_pat
	{0x310, 8, 0x600},      // rdx
	{0x3b0, 8, 0x1},        // sev_features (SNPActive)
	{0x3e8, 8, 0x1},        // xcr0
}

func vmsaPage(ap bool, resetAddr uint32) []byte {
	p := make([]byte, 4096)
	for _, f := range resetState {
		v := f.val
		if ap && f.off == 0x18 {
			v = uint64(resetAddr) & 0xffff0000
		}
		if ap && f.off == 0x178 {
			v = uint64(resetAddr) & 0xffff
		}
		switch f.width {
		case 2:
			binary.LittleEndian.PutUint16(p[f.off:], uint16(v))
		case 4:
			binary.LittleEndian.PutUint32(p[f.off:], uint32(v))
		default:
			binary.LittleEndian.PutUint64(p[f.off:], v)
		}
	}
	return p
}

func extend(cur *[48]byte, contents *[48]byte, pageType byte, gpa uint64) {
	var info [0x70]byte
	copy(info[0:], cur[:])
	if contents != nil {
		copy(info[0x30:], contents[:])
	}
	binary.LittleEndian.PutUint16(info[0x60:], 0x70)
	info[0x62] = pageType
	// imi 0, vmpl perms 0
	binary.LittleEndian.PutUint64(info[0x68:], gpa)
	*cur = sha512.Sum384(info[:])
}

// LaunchDigest is the SNP_LAUNCH_UPDATE digest chain of the property statement. widthBits is the
// product's guest-physical address width (Milan 48, Genoa 52).
func LaunchDigest(img []byte, vcpus int, widthBits uint) ([48]byte, error) {
	var d [48]byte
	info, ok := ParseSev(img)
	if !ok {
		return d, fmt.Errorf("reference: firmware metadata not found or inconsistent")
	}
	if ok, why := SevWellFormed(info.Sections); !ok {
		return d, fmt.Errorf("reference: malformed SNP metadata: %s", why)
	}
	if len(img)%4096 != 0 || len(img) == 0 {
		return d, fmt.Errorf("reference: ROM is not a whole number of pages")
	}
	if vcpus < 1 {
		return d, fmt.Errorf("reference: vcpus < 1")
	}
	base := uint64(1)<<32 - uint64(len(img))
	for off := 0; off < len(img); off += 4096 {
		c := sha512.Sum384(img[off : off+4096])
		extend(&d, &c, pageNormal, base+uint64(off))
	}
	for _, s := range info.Sections {
		t := map[uint32]byte{1: pageUnmeasured, 2: pageSecrets, 3: pageCpuid, 4: pageZero}[s.Kind]
		for a := uint64(s.Address); a < uint64(s.Address)+uint64(s.Length); a += 4096 {
			extend(&d, nil, t, a)
		}
	}
	gpa := (uint64(1)<<widthBits - 1) &^ 0xfff
	for i := 0; i < vcpus; i++ {
		c := sha512.Sum384(vmsaPage(i > 0, info.ResetAddr))
		extend(&d, &c, pageVmsa, gpa)
	}
	return d, nil
}
