// Package mc holds the engines shared by all property harnesses: run bookkeeping and evidence
// (this file), the stateless choice explorer E1 (explore.go), the cooperative scheduler E2
// (sched.go) and small enumeration helpers (enum.go). It does not depend on /repo.
package mc

import (
	"crypto/sha256"
	"encoding/hex"
	"encoding/json"
	"fmt"
	"os"
	"path/filepath"
	"runtime"
	"sort"
	"strconv"
	"strings"
	"sync"
	"sync/atomic"
	"time"
)

// VerifRoot is where evidence, replays and known findings live.
func VerifRoot() string {
	if v := os.Getenv("VERIF_ROOT"); v != "" {
		return v
	}
	return "/verif"
}

// Finding is one entry of known_findings.json.
type Finding struct {
	Property string `json:"property"`
	Status   string `json:"status"` // known | fixed
	Key      string `json:"key"`
	What     string `json:"what"`
	Commit   string `json:"commit,omitempty"`
}

// Run is the bookkeeping of one check invocation.
type Run struct {
	Prop     string
	Tier     string // quick | thorough
	Seed     int64
	ReplayID string // when non-empty only the case with this id is executed (twice)
	Deadline time.Time
	start    time.Time

	mu          sync.Mutex
	evals       int64
	transitions int64
	validated   int64
	states      map[string]struct{}
	nontrivial  map[string]struct{}
	outcomes    map[string]int64
	samples     []any
	extra       map[string]any
	assumptions []string
	rule        string
	exhaustive  bool
	caps        []string
	viol        map[string]*violation
	violOrder   []string
	known       []Finding
	knownHit    map[string]int
	degraded    []string
	replayObs   []string
}

type violation struct {
	Key    string `json:"key"`
	What   string `json:"what"`
	CaseID string `json:"case_id"`
	Detail any    `json:"detail,omitempty"`
	Count  int    `json:"count"`
}

// NewRun parses the command line: <tier> [--replay FILE].
func NewRun(prop string) *Run {
	r := &Run{Prop: prop, Tier: "quick", start: time.Now(), exhaustive: true,
		states: map[string]struct{}{}, nontrivial: map[string]struct{}{}, outcomes: map[string]int64{},
		extra: map[string]any{}, viol: map[string]*violation{}, knownHit: map[string]int{}}
	args := os.Args[1:]
	for i := 0; i < len(args); i++ {
		switch args[i] {
		case "quick", "thorough":
			r.Tier = args[i]
		case "--replay":
			if i+1 >= len(args) {
				fatal("--replay needs a file")
			}
			i++
			b, err := os.ReadFile(args[i])
			if err != nil {
				fatal("replay: %v", err)
			}
			var rep struct {
				Property string `json:"property"`
				CaseID   string `json:"case_id"`
				Tier     string `json:"tier"`
			}
			if err := json.Unmarshal(b, &rep); err != nil {
				fatal("replay: %v", err)
			}
			if rep.Property != prop {
				fatal("replay file is for %s, not %s", rep.Property, prop)
			}
			r.ReplayID = rep.CaseID
			if rep.Tier != "" {
				r.Tier = rep.Tier
			}
		default:
			fatal("usage: %s quick|thorough [--replay FILE]", prop)
		}
	}
	if t := os.Getenv("VERIF_TIER"); t == "quick" || t == "thorough" {
		if len(args) == 0 {
			r.Tier = t
		}
	}
	if s := os.Getenv("VERIF_SEED"); s != "" {
		if v, err := strconv.ParseInt(s, 10, 64); err == nil {
			r.Seed = v
		}
	}
	budget := 8 * time.Minute
	if r.Tier == "thorough" {
		budget = 40 * time.Minute
	}
	if s := os.Getenv("VERIF_BUDGET_S"); s != "" {
		if v, err := strconv.Atoi(s); err == nil {
			budget = time.Duration(v) * time.Second
		}
	}
	r.Deadline = r.start.Add(budget)
	r.loadKnown()
	return r
}

func fatal(f string, a ...any) {
	fmt.Fprintf(os.Stderr, "harness error: "+f+"\n", a...)
	Exit(2)
}

// Fatal stops the check with a harness error (exit 2): the machinery, not the property, failed.
func Fatal(f string, a ...any) { fatal(f, a...) }

func (r *Run) loadKnown() {
	b, err := os.ReadFile(filepath.Join(VerifRoot(), "known_findings.json"))
	if err != nil {
		return
	}
	var f struct {
		Findings []Finding `json:"findings"`
	}
	if err := json.Unmarshal(b, &f); err != nil {
		fatal("known_findings.json: %v", err)
	}
	for _, k := range f.Findings {
		if k.Property == r.Prop && k.Status == "known" {
			r.known = append(r.known, k)
		}
	}
}

// Thorough reports whether the thorough tier was requested.
func (r *Run) Thorough() bool { return r.Tier == "thorough" }

// Pick returns q for quick and t for thorough.
func Pick[T any](r *Run, q, t T) T {
	if r.Thorough() {
		return t
	}
	return q
}

// Expired reports whether the internal deadline passed; the caller stops enumerating, and the
// evidence says exhaustive:false with the cap recorded.
func (r *Run) Expired() bool {
	if time.Now().After(r.Deadline) {
		r.Cap("internal deadline reached")
		return true
	}
	return false
}

// Cap records that a cap was hit, so the run is not exhaustive.
func (r *Run) Cap(what string) {
	r.mu.Lock()
	defer r.mu.Unlock()
	r.exhaustive = false
	for _, c := range r.caps {
		if c == what {
			return
		}
	}
	r.caps = append(r.caps, what)
}

// Want reports whether the case id is to be executed (always, except in replay mode).
func (r *Run) Want(id string) bool { return r.ReplayID == "" || r.ReplayID == id }

// Replaying reports replay mode.
func (r *Run) Replaying() bool { return r.ReplayID != "" }

// Eval counts one execution of real repository code.
func (r *Run) Eval() { atomic.AddInt64(&r.evals, 1) }

// EvalN counts n executions.
func (r *Run) EvalN(n int) { atomic.AddInt64(&r.evals, int64(n)) }

// Validated counts one execution whose whole observation was compared with the reference.
func (r *Run) Validated() { atomic.AddInt64(&r.validated, 1) }

// Transition counts n transitions (commands, scheduling steps, writes replayed, choices taken).
func (r *Run) Transition(n int) { atomic.AddInt64(&r.transitions, int64(n)) }

func short(s string) string {
	if len(s) <= 96 {
		return s
	}
	h := sha256.Sum256([]byte(s))
	return hex.EncodeToString(h[:12])
}

// State records a canonical state / observation signature; returns true when new.
func (r *Run) State(canon string) bool {
	k := short(canon)
	r.mu.Lock()
	defer r.mu.Unlock()
	if _, ok := r.states[k]; ok {
		return false
	}
	r.states[k] = struct{}{}
	return true
}

// Nontrivial records a distinct case in which the interesting branch ran.
func (r *Run) Nontrivial(key string) {
	k := short(key)
	r.mu.Lock()
	r.nontrivial[k] = struct{}{}
	r.mu.Unlock()
}

// Outcome counts an outcome class (printed in evidence so vacuity is visible).
func (r *Run) Outcome(class string) {
	r.mu.Lock()
	r.outcomes[class]++
	r.mu.Unlock()
}

// Sample keeps up to 12 written-out cases.
func (r *Run) Sample(s any) {
	r.mu.Lock()
	if len(r.samples) < 12 {
		r.samples = append(r.samples, s)
	}
	r.mu.Unlock()
}

// Set adds an extra coverage key.
func (r *Run) Set(k string, v any) {
	r.mu.Lock()
	r.extra[k] = v
	r.mu.Unlock()
}

// Add increments an extra integer coverage key.
func (r *Run) Add(k string, n int64) {
	r.mu.Lock()
	cur, _ := r.extra[k].(int64)
	r.extra[k] = cur + n
	r.mu.Unlock()
}

// Rule sets the enumeration / non-triviality rule text.
func (r *Run) Rule(s string) { r.rule = s }

// Assume records an assumption.
func (r *Run) Assume(s string) { r.assumptions = append(r.assumptions, s) }

// Degraded records an optional sub-check that could not be built or run.
func (r *Run) Degraded(s string) { r.mu.Lock(); r.degraded = append(r.degraded, s); r.mu.Unlock() }

// ReplayObserve records an observation in replay mode (compared between the two executions).
func (r *Run) ReplayObserve(s string) {
	r.mu.Lock()
	r.replayObs = append(r.replayObs, s)
	r.mu.Unlock()
}

// Violation records a violation. key is the canonical class of the failing case (used for known
// findings and de-duplication); caseID identifies the exact case for replay.
func (r *Run) Violation(key, caseID, what string, detail any) {
	r.mu.Lock()
	defer r.mu.Unlock()
	if v, ok := r.viol[key]; ok {
		v.Count++
		return
	}
	r.viol[key] = &violation{Key: key, What: what, CaseID: caseID, Detail: detail, Count: 1}
	r.violOrder = append(r.violOrder, key)
}

// Violations returns the number of distinct violation classes so far.
func (r *Run) Violations() int { r.mu.Lock(); defer r.mu.Unlock(); return len(r.viol) }

// Finish writes evidence, prints the verdict lines and exits.
func (r *Run) Finish() {
	wall := time.Since(r.start).Seconds()
	sort.Strings(r.violOrder)
	unknown := 0
	var lines []string
	for _, k := range r.violOrder {
		v := r.viol[k]
		isKnown := false
		for _, f := range r.known {
			if f.Key == k {
				isKnown = true
				r.knownHit[k]++
				lines = append(lines, fmt.Sprintf("KNOWN-FINDING: property=%s %s [key=%s cases=%d]", r.Prop, f.What, k, v.Count))
			}
		}
		if isKnown {
			continue
		}
		unknown++
		dir := filepath.Join(VerifRoot(), "replays", r.Prop)
		os.MkdirAll(dir, 0o755)
		h := sha256.Sum256([]byte(k + "\x00" + v.CaseID))
		p := filepath.Join(dir, hex.EncodeToString(h[:8])+".json")
		rep := map[string]any{"property": r.Prop, "tier": r.Tier, "key": k, "case_id": v.CaseID, "what": v.What, "detail": v.Detail, "cases_in_class": v.Count}
		b, _ := json.MarshalIndent(rep, "", " ")
		os.WriteFile(p, b, 0o644)
		lines = append(lines, fmt.Sprintf("VIOLATION property=%s replay=%s", r.Prop, p))
		lines = append(lines, fmt.Sprintf("  key=%s cases=%d: %s", k, v.Count, v.What))
	}
	// A known finding that no longer reproduces is reported as information only.
	for _, f := range r.known {
		if r.knownHit[f.Key] == 0 && r.ReplayID == "" {
			lines = append(lines, fmt.Sprintf("note: known finding not reproduced in this run: property=%s key=%s", r.Prop, f.Key))
		}
	}
	if r.ReplayID != "" {
		fmt.Printf("replay of %s: %d evaluation(s), violations=%d\n", r.ReplayID, r.evals, len(r.viol))
		for _, l := range lines {
			fmt.Println(l)
		}
		if r.evals == 0 {
			fmt.Println("replay: case id not found in the enumeration")
			Exit(2)
		}
		if unknown > 0 || len(r.viol) > 0 {
			Exit(1)
		}
		Exit(0)
	}
	cov := map[string]any{}
	for k, v := range r.extra {
		cov[k] = v
	}
	st := len(r.states)
	tr := r.transitions
	if st == 0 {
		st = len(r.nontrivial)
	}
	if tr == 0 {
		tr = r.evals
	}
	cov["evaluations"] = r.evals
	cov["distinct_nontrivial"] = len(r.nontrivial)
	cov["rule"] = r.rule
	if r.samples == nil {
		r.samples = []any{}
	}
	if r.caps == nil {
		r.caps = []string{}
	}
	cov["samples"] = r.samples
	cov["states"] = st
	cov["transitions"] = tr
	cov["traces_validated_against_impl"] = r.validated
	cov["exhaustive"] = r.exhaustive
	cov["caps_hit"] = r.caps
	cov["outcome_classes"] = r.outcomes
	cov["known_findings_reproduced"] = len(r.knownHit)
	if len(r.degraded) > 0 {
		cov["degraded"] = r.degraded
	}
	cov["gomaxprocs"] = runtime.GOMAXPROCS(0)
	ev := map[string]any{
		"property_id": r.Prop, "tier": r.Tier, "seed": r.Seed, "level": "model_checking",
		"coverage": cov, "assumptions": r.assumptions, "wall_s": wall, "violations": unknown,
	}
	if ev["assumptions"] == nil || len(r.assumptions) == 0 {
		ev["assumptions"] = []string{}
	}
	b, _ := json.MarshalIndent(ev, "", " ")
	os.MkdirAll(filepath.Join(VerifRoot(), "evidence"), 0o755)
	if err := os.WriteFile(filepath.Join(VerifRoot(), "evidence", r.Prop+".json"), append(b, '\n'), 0o644); err != nil {
		fatal("evidence: %v", err)
	}
	fmt.Printf("%s %s: evaluations=%d states=%d transitions=%d validated=%d nontrivial=%d exhaustive=%v wall=%.1fs outcomes=%s\n",
		r.Prop, r.Tier, r.evals, st, tr, r.validated, len(r.nontrivial), r.exhaustive, wall, fmtOutcomes(r.outcomes))
	for _, l := range lines {
		fmt.Println(l)
	}
	if unknown > 0 {
		Exit(1)
	}
	Exit(0)
}

func fmtOutcomes(m map[string]int64) string {
	var ks []string
	for k := range m {
		ks = append(ks, k)
	}
	sort.Strings(ks)
	var sb strings.Builder
	for i, k := range ks {
		if i > 0 {
			sb.WriteString(" ")
		}
		fmt.Fprintf(&sb, "%s:%d", k, m[k])
	}
	return sb.String()
}

// Evaluations returns the number of executions counted so far.
func (r *Run) Evaluations() int64 { return atomic.LoadInt64(&r.evals) }

var (
	atExitMu sync.Mutex
	atExit   []func()
)

// AtExit registers f to run before the process exits through this package (Finish, Fatal, worker
// exits): deferred functions of main do not run on os.Exit, so scratch directories are removed here.
func AtExit(f func()) {
	atExitMu.Lock()
	atExit = append(atExit, f)
	atExitMu.Unlock()
}

// Exit runs the AtExit functions and exits.
func Exit(code int) {
	atExitMu.Lock()
	fs := atExit
	atExit = nil
	atExitMu.Unlock()
	for _, f := range fs {
		f()
	}
	os.Exit(code)
}
