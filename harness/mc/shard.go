package mc

import (
	"bytes"
	"encoding/json"
	"fmt"
	"os"
	"os/exec"
	"runtime"
	"sync"
	"time"
)

// Sharding across worker processes: a worker is the same binary started with
// "worker <tier> <shard args...>"; it fills a Run as usual and calls ExportAndExit, the parent
// merges the exported counters with Import. Used where executions must run single-threaded
// (cooperative scheduler: hand-offs are cheapest with GOMAXPROCS=1) or may die (decoders).

type exported struct {
	Evals, Transitions, Validated int64
	States, Nontrivial            []string
	Outcomes                      map[string]int64
	Samples                       []any
	Extra                         map[string]any
	Caps                          []string
	Exhaustive                    bool
	Violations                    []*violation
	Degraded                      []string
}

// NewWorkerRun creates a Run for a worker process (no argument parsing).
func NewWorkerRun(prop, tier string, budget time.Duration) *Run {
	r := &Run{Prop: prop, Tier: tier, start: time.Now(), exhaustive: true,
		states: map[string]struct{}{}, nontrivial: map[string]struct{}{}, outcomes: map[string]int64{},
		extra: map[string]any{}, viol: map[string]*violation{}, knownHit: map[string]int{}}
	r.Deadline = r.start.Add(budget)
	return r
}

// ExportAndExit prints the run's counters as one JSON line on stdout and exits 0.
func (r *Run) ExportAndExit() {
	e := exported{Evals: r.evals, Transitions: r.transitions, Validated: r.validated, Outcomes: r.outcomes,
		Samples: r.samples, Extra: r.extra, Caps: r.caps, Exhaustive: r.exhaustive, Degraded: r.degraded}
	for k := range r.states {
		e.States = append(e.States, k)
	}
	for k := range r.nontrivial {
		e.Nontrivial = append(e.Nontrivial, k)
	}
	for _, k := range r.violOrder {
		e.Violations = append(e.Violations, r.viol[k])
	}
	b, err := json.Marshal(e)
	if err != nil {
		fatal("export: %v", err)
	}
	os.Stdout.Write(append(append([]byte("VERIF-WORKER-RESULT "), b...), '\n'))
	Exit(0)
}

// Import merges a worker's exported counters.
func (r *Run) Import(line []byte) error {
	var e exported
	if err := json.Unmarshal(line, &e); err != nil {
		return err
	}
	r.mu.Lock()
	defer r.mu.Unlock()
	r.evals += e.Evals
	r.transitions += e.Transitions
	r.validated += e.Validated
	for _, k := range e.States {
		r.states[k] = struct{}{}
	}
	for _, k := range e.Nontrivial {
		r.nontrivial[k] = struct{}{}
	}
	for k, v := range e.Outcomes {
		r.outcomes[k] += v
	}
	for _, s := range e.Samples {
		if len(r.samples) < 16 {
			r.samples = append(r.samples, s)
		}
	}
	for k, v := range e.Extra {
		if f, ok := v.(float64); ok {
			cur, _ := r.extra[k].(int64)
			r.extra[k] = cur + int64(f)
		} else {
			r.extra[k] = v
		}
	}
	for _, c := range e.Caps {
		r.exhaustive = false
		r.caps = append(r.caps, c)
	}
	if !e.Exhaustive {
		r.exhaustive = false
	}
	r.degraded = append(r.degraded, e.Degraded...)
	for _, v := range e.Violations {
		if cur, ok := r.viol[v.Key]; ok {
			cur.Count += v.Count
			continue
		}
		r.viol[v.Key] = v
		r.violOrder = append(r.violOrder, v.Key)
	}
	return nil
}

// WorkerJob is one shard.
type WorkerJob struct {
	Args []string
	Env  []string
	// Timeout after which the worker is killed (recorded as a cap, not a violation).
	Timeout time.Duration
}

// RunWorkers starts the current binary once per job ("worker" + job.Args), at most par at a time,
// and imports every result. A worker that dies or times out is reported through onFail.
func (r *Run) RunWorkers(jobs []WorkerJob, par int, onFail func(j WorkerJob, out []byte, err error)) {
	if par <= 0 {
		par = runtime.NumCPU()
	}
	self, err := os.Executable()
	if err != nil {
		fatal("os.Executable: %v", err)
	}
	sem := make(chan struct{}, par)
	var wg sync.WaitGroup
	for _, j := range jobs {
		j := j
		wg.Add(1)
		sem <- struct{}{}
		go func() {
			defer wg.Done()
			defer func() { <-sem }()
			cmd := exec.Command(self, append([]string{"worker"}, j.Args...)...)
			cmd.Env = append(os.Environ(), j.Env...)
			var out bytes.Buffer
			cmd.Stdout = &out
			cmd.Stderr = &out
			if err := cmd.Start(); err != nil {
				onFail(j, nil, err)
				return
			}
			done := make(chan error, 1)
			go func() { done <- cmd.Wait() }()
			var werr error
			to := j.Timeout
			if to == 0 {
				to = time.Until(r.Deadline) + 30*time.Second
			}
			select {
			case werr = <-done:
			case <-time.After(to):
				cmd.Process.Kill()
				<-done
				werr = fmt.Errorf("worker timed out after %v", to)
			}
			var line []byte
			for _, l := range bytes.Split(out.Bytes(), []byte("\n")) {
				if bytes.HasPrefix(l, []byte("VERIF-WORKER-RESULT ")) {
					line = bytes.TrimPrefix(l, []byte("VERIF-WORKER-RESULT "))
				}
			}
			if line == nil {
				if werr == nil {
					werr = fmt.Errorf("worker produced no result")
				}
				onFail(j, out.Bytes(), werr)
				return
			}
			if err := r.Import(line); err != nil {
				onFail(j, out.Bytes(), err)
			}
		}()
	}
	wg.Wait()
}
