package mc

import (
	"fmt"
	"strconv"
	"strings"
	"sync"
)

// E1 — stateless choice explorer. A harness body asks the Chooser for every environment answer;
// choice 0 is the default answer. Explore runs the body for the empty prefix, then for every
// choice point of every execution branches to each alternative whose deviation cost stays within
// the bound (iterative deviation bounding: the caller raises the bound 0,1,2,...).

// ChoicePoint is one recorded choice.
type ChoicePoint struct {
	N      int
	Label  string
	Choice int
	Free   bool // alternatives at this point cost nothing (e.g. running thread not enabled)
}

// Chooser is handed to one execution.
type Chooser struct {
	prefix []int
	// Policy, if set, answers the points beyond the prefix (default: choice 0). It lets a harness
	// script one deep execution (a line, not a tree) by label, e.g. "fail retriably at every commit".
	Policy func(n int, label string, index int) int
	Points []ChoicePoint
	// Diverged is set when the replayed prefix met a different point than was recorded.
	expect []ChoicePoint
}

// ErrDiverged is the panic value used when replay of a prefix diverges.
type ErrDiverged struct{ Msg string }

// Choose returns the answer for a choice point with n alternatives.
func (c *Chooser) Choose(n int, label string) int { return c.choose(n, label, false) }

// ChooseFree is Choose where taking an alternative does not count as a deviation.
func (c *Chooser) ChooseFree(n int, label string) int { return c.choose(n, label, true) }

func (c *Chooser) choose(n int, label string, free bool) int {
	if n <= 0 {
		panic(ErrDiverged{fmt.Sprintf("choice point %q with %d alternatives", label, n)})
	}
	i := len(c.Points)
	ch := 0
	if i < len(c.prefix) {
		ch = c.prefix[i]
		if ch >= n {
			panic(ErrDiverged{fmt.Sprintf("replay diverged at point %d (%s): choice %d of %d", i, label, ch, n)})
		}
		if i < len(c.expect) && (c.expect[i].N != n || c.expect[i].Label != label) {
			panic(ErrDiverged{fmt.Sprintf("replay diverged at point %d: recorded (%d,%s) now (%d,%s)", i, c.expect[i].N, c.expect[i].Label, n, label)})
		}
	} else if c.Policy != nil {
		if ch = c.Policy(n, label, i); ch < 0 || ch >= n {
			ch = 0
		}
	}
	c.Points = append(c.Points, ChoicePoint{N: n, Label: label, Choice: ch, Free: free})
	return ch
}

// Choices returns the choice list of the execution.
func (c *Chooser) Choices() []int {
	out := make([]int, len(c.Points))
	for i, p := range c.Points {
		out[i] = p.Choice
	}
	return out
}

// Trace renders the non-default choices for humans.
func (c *Chooser) Trace() string {
	var sb strings.Builder
	for i, p := range c.Points {
		if p.Choice != 0 {
			fmt.Fprintf(&sb, "[%d:%s=%d/%d]", i, p.Label, p.Choice, p.N)
		}
	}
	if sb.Len() == 0 {
		return "[all-default]"
	}
	return sb.String()
}

// ChoicesString encodes a choice list.
func ChoicesString(cs []int) string {
	s := make([]string, len(cs))
	for i, c := range cs {
		s[i] = strconv.Itoa(c)
	}
	return strings.Join(s, ",")
}

// ParseChoices decodes ChoicesString.
func ParseChoices(s string) []int {
	if s == "" {
		return nil
	}
	var out []int
	for _, f := range strings.Split(s, ",") {
		v, err := strconv.Atoi(f)
		if err != nil {
			Fatal("bad choice list %q", s)
		}
		out = append(out, v)
	}
	return out
}

// NewChooser builds a chooser replaying prefix.
func NewChooser(prefix []int) *Chooser { return &Chooser{prefix: prefix} }

// Explorer drives exhaustive exploration.
type Explorer struct {
	Bound    int   // maximum number of costly deviations; <0 means unbounded (full tree)
	Workers  int   // parallel workers (body must then be safe to run concurrently); default 1
	MaxExecs int64 // cap; 0 = none
	Stop     func() bool
	// Body runs one execution. It must be deterministic given the chooser's answers.
	Body func(c *Chooser)

	Execs    int64
	Points   int64
	MaxDepth int
	CapHit   bool
	mu       sync.Mutex
}

type work struct {
	prefix []int
	expect []ChoicePoint
}

// Run explores everything within the bound.
func (e *Explorer) Run() {
	if e.Workers <= 1 {
		stack := []work{{}}
		for len(stack) > 0 {
			w := stack[len(stack)-1]
			stack = stack[:len(stack)-1]
			if e.stopped() {
				e.CapHit = true
				return
			}
			stack = append(stack, e.one(w)...)
		}
		return
	}
	var wg sync.WaitGroup
	var mu sync.Mutex
	cond := sync.NewCond(&mu)
	stack := []work{{}}
	busy := 0
	for i := 0; i < e.Workers; i++ {
		wg.Add(1)
		go func() {
			defer wg.Done()
			for {
				mu.Lock()
				for len(stack) == 0 && busy > 0 {
					cond.Wait()
				}
				if len(stack) == 0 {
					mu.Unlock()
					cond.Broadcast()
					return
				}
				w := stack[len(stack)-1]
				stack = stack[:len(stack)-1]
				busy++
				mu.Unlock()
				var more []work
				if e.stopped() {
					e.mu.Lock()
					e.CapHit = true
					e.mu.Unlock()
				} else {
					more = e.one(w)
				}
				mu.Lock()
				stack = append(stack, more...)
				busy--
				mu.Unlock()
				cond.Broadcast()
			}
		}()
	}
	wg.Wait()
}

func (e *Explorer) stopped() bool {
	e.mu.Lock()
	n := e.Execs
	e.mu.Unlock()
	if e.MaxExecs > 0 && n >= e.MaxExecs {
		return true
	}
	return e.Stop != nil && e.Stop()
}

func (e *Explorer) one(w work) []work {
	c := &Chooser{prefix: w.prefix, expect: w.expect}
	e.Body(c)
	if len(c.Points) < len(w.prefix) {
		panic(ErrDiverged{fmt.Sprintf("replay of prefix %v consumed only %d points", w.prefix, len(c.Points))})
	}
	e.mu.Lock()
	e.Execs++
	e.Points += int64(len(c.Points))
	if len(c.Points) > e.MaxDepth {
		e.MaxDepth = len(c.Points)
	}
	e.mu.Unlock()
	var out []work
	cost := 0
	for i, p := range c.Points {
		if i < len(w.prefix) {
			if p.Choice != 0 && !p.Free {
				cost++
			}
			continue
		}
		// p.Choice == 0 here (default taken beyond the prefix).
		if e.Bound < 0 || p.Free || cost+1 <= e.Bound {
			for alt := p.N - 1; alt >= 1; alt-- {
				np := make([]int, i+1)
				for j := 0; j < i; j++ {
					np[j] = c.Points[j].Choice
				}
				np[i] = alt
				out = append(out, work{prefix: np, expect: append([]ChoicePoint(nil), c.Points[:i+1]...)})
			}
		}
	}
	return out
}

func (e ErrDiverged) Error() string { return "schedule/choice replay diverged: " + e.Msg }
