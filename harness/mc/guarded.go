package mc

import (
	"bufio"
	"fmt"
	"io"
	"os"
	"os/exec"
	"runtime"
	"strconv"
	"strings"
	"sync"
	"time"
)

// Guarded runs cases that may panic, hang, exhaust memory or kill the process. Cases are run in
// worker processes ("gworker <from> <to> <horizon ms>") with a journal on stdout:
//   S <i>                       about to run case i
//   D <i> <alloc bytes> <outcome...>   case i finished (outcome is one line)
// The parent resets a per-case horizon timer on every S line; on worker death or horizon the case
// is recorded as a suspect and the worker is restarted after it. Suspects are re-run alone three
// times with five times the horizon before they are believed.

// GuardedCase is what the worker needs to run case i.
type GuardedCase struct {
	// ID is the stable case identifier (also used for replay).
	ID string
	// Run executes the case on the real code. It may panic. It returns a short outcome class and
	// the input length used for the allocation bound.
	Run func() (outcome string, inputLen int)
}

// Guarded describes a family of cases.
type Guarded struct {
	N          int
	Case       func(i int) GuardedCase
	AllocBound func(inputLen int) uint64
	Horizon    time.Duration
	Chunk      int
	MemLimitKB int64 // ulimit -v for workers
	// WorkerEnv is passed to workers (e.g. corpus path).
	WorkerEnv []string
	// MaxConfirm bounds how many suspects are re-run alone (each costs up to 15x the horizon);
	// 0 means all. Suspects beyond the bound are counted in UnconfirmedSuspects.
	MaxConfirm          int
	UnconfirmedSuspects int
	// MaxSuspects (default 48) ends the enumeration once that many cases killed or hung their
	// worker: each of them costs a full horizon, and a defect that hangs most inputs must end in a
	// report, not in hours of waiting. The cases not run are recorded as a cap.
	MaxSuspects int
}

// GuardedWorkerMain must be called early in main: when the process is a guarded worker it runs
// its range and exits.
func GuardedWorkerMain(build func() *Guarded) {
	if len(os.Args) < 5 || os.Args[1] != "gworker" {
		return
	}
	from, _ := strconv.Atoi(os.Args[2])
	to, _ := strconv.Atoi(os.Args[3])
	g := build()
	w := bufio.NewWriter(os.Stdout)
	var ms runtime.MemStats
	for i := from; i < to && i < g.N; i++ {
		c := g.Case(i)
		fmt.Fprintf(w, "S %d\n", i)
		w.Flush()
		runtime.ReadMemStats(&ms)
		before := ms.TotalAlloc
		outcome, n := "", 0
		func() {
			defer func() {
				if x := recover(); x != nil {
					outcome = "PANIC " + oneLine(fmt.Sprint(x)) + " @ " + panicSite()
				}
			}()
			outcome, n = c.Run()
		}()
		runtime.ReadMemStats(&ms)
		fmt.Fprintf(w, "D %d %d %d %s\n", i, ms.TotalAlloc-before, n, oneLine(outcome))
		w.Flush()
	}
	Exit(0)
}

func oneLine(s string) string {
	s = strings.ReplaceAll(s, "\n", " ")
	if len(s) > 300 {
		s = s[:300]
	}
	return s
}

// panicSite returns the first repository frame of the current panic's stack.
func panicSite() string {
	pcs := make([]uintptr, 64)
	n := runtime.Callers(3, pcs)
	frames := runtime.CallersFrames(pcs[:n])
	first := ""
	for {
		f, more := frames.Next()
		if strings.Contains(f.Function, "gce-tcb-verifier") {
			return fmt.Sprintf("%s:%d", f.Function, f.Line)
		}
		if first == "" && !strings.HasPrefix(f.Function, "runtime.") && !strings.Contains(f.Function, "verifharness") {
			first = fmt.Sprintf("%s:%d", f.Function, f.Line)
		}
		if !more {
			break
		}
	}
	return "dependency:" + first
}

// GuardedResult is one finished case as seen by the parent.
type GuardedResult struct {
	Index    int
	Alloc    uint64
	InputLen int
	Outcome  string
}

// Suspect is a case that killed or hung its worker.
type Suspect struct {
	Index int
	Why   string // death | horizon
	Tail  string
}

type chunk struct{ from, to int }

func (g *Guarded) spawn(from, to int, horizon time.Duration) (*exec.Cmd, io.ReadCloser, error) {
	self, err := os.Executable()
	if err != nil {
		return nil, nil, err
	}
	lim := g.MemLimitKB
	if lim == 0 {
		lim = 16 << 20
	}
	script := fmt.Sprintf("ulimit -v %d; exec \"$0\" \"$@\"", lim)
	cmd := exec.Command("sh", "-c", script, self, "gworker", strconv.Itoa(from), strconv.Itoa(to), strconv.Itoa(int(horizon/time.Millisecond)))
	cmd.Env = append(append(os.Environ(), "GOMAXPROCS=1", "GOGC=50"), g.WorkerEnv...)
	out, err := cmd.StdoutPipe()
	if err != nil {
		return nil, nil, err
	}
	cmd.Stderr = nil
	if err := cmd.Start(); err != nil {
		return nil, nil, err
	}
	return cmd, out, nil
}

// runChunk runs [from,to) and returns finished results and, if the worker died or hung, the suspect.
func (g *Guarded) runChunk(from, to int, horizon time.Duration, onResult func(GuardedResult)) *Suspect {
	cmd, out, err := g.spawn(from, to, horizon)
	if err != nil {
		Fatal("cannot start guarded worker: %v", err)
	}
	lines := make(chan string, 256)
	go func() {
		sc := bufio.NewScanner(out)
		sc.Buffer(make([]byte, 1<<16), 1<<20)
		for sc.Scan() {
			lines <- sc.Text()
		}
		close(lines)
	}()
	current := -1
	timer := time.NewTimer(horizon + 20*time.Second) // process start-up allowance
	defer timer.Stop()
	for {
		select {
		case l, ok := <-lines:
			if !ok {
				cmd.Wait()
				if current >= 0 {
					return &Suspect{Index: current, Why: "death"}
				}
				return nil
			}
			switch {
			case strings.HasPrefix(l, "S "):
				current, _ = strconv.Atoi(l[2:])
				if !timer.Stop() {
					select {
					case <-timer.C:
					default:
					}
				}
				timer.Reset(horizon)
			case strings.HasPrefix(l, "D "):
				f := strings.SplitN(l, " ", 5)
				if len(f) >= 4 {
					i, _ := strconv.Atoi(f[1])
					a, _ := strconv.ParseUint(f[2], 10, 64)
					n, _ := strconv.Atoi(f[3])
					o := ""
					if len(f) == 5 {
						o = f[4]
					}
					onResult(GuardedResult{i, a, n, o})
					if i == current {
						current = -1
					}
				}
			}
		case <-timer.C:
			cmd.Process.Kill()
			cmd.Wait()
			if current >= 0 {
				return &Suspect{Index: current, Why: "horizon"}
			}
			return &Suspect{Index: from, Why: "worker start-up hung"}
		}
	}
}

// RunParent executes all cases and returns results (by callback) and confirmed suspects.
func (g *Guarded) RunParent(r *Run, onResult func(GuardedResult)) []Suspect {
	if g.Chunk == 0 {
		g.Chunk = 4000
	}
	if g.Horizon == 0 {
		g.Horizon = 20 * time.Second
	}
	var mu sync.Mutex
	var queue []chunk
	for f := 0; f < g.N; f += g.Chunk {
		t := f + g.Chunk
		if t > g.N {
			t = g.N
		}
		queue = append(queue, chunk{f, t})
	}
	var suspects []Suspect
	var wg sync.WaitGroup
	par := runtime.NumCPU()
	for w := 0; w < par; w++ {
		wg.Add(1)
		go func() {
			defer wg.Done()
			for {
				mu.Lock()
				maxS := g.MaxSuspects
				if maxS == 0 {
					maxS = 48
				}
				if len(queue) == 0 || r.Expired() || len(suspects) >= maxS {
					if len(queue) > 0 {
						why := "at the internal deadline"
						if len(suspects) >= maxS {
							why = fmt.Sprintf("after %d cases killed or hung their worker", len(suspects))
						}
						r.Cap(fmt.Sprintf("guarded cases not run: %d chunks left %s", len(queue), why))
						queue = nil
					}
					mu.Unlock()
					return
				}
				c := queue[0]
				queue = queue[1:]
				mu.Unlock()
				s := g.runChunk(c.from, c.to, g.Horizon, func(res GuardedResult) {
					mu.Lock()
					onResult(res)
					mu.Unlock()
				})
				if s != nil {
					mu.Lock()
					suspects = append(suspects, *s)
					if s.Index+1 < c.to {
						queue = append(queue, chunk{s.Index + 1, c.to})
					}
					mu.Unlock()
				}
			}
		}()
	}
	wg.Wait()
	// Confirm suspects alone, three times, with five times the horizon.
	var confirmed []Suspect
	for si, s := range suspects {
		if g.MaxConfirm > 0 && si >= g.MaxConfirm {
			g.UnconfirmedSuspects = len(suspects) - g.MaxConfirm
			r.Cap(fmt.Sprintf("%d further suspect cases (worker death/horizon) were not re-run alone", g.UnconfirmedSuspects))
			break
		}
		bad := 0
		for k := 0; k < 3; k++ {
			finished := false
			s2 := g.runChunk(s.Index, s.Index+1, 5*g.Horizon, func(res GuardedResult) {
				finished = true
				mu.Lock()
				onResult(res)
				mu.Unlock()
			})
			if s2 != nil && !finished {
				bad++
				s.Why = s2.Why
			} else {
				break
			}
		}
		if bad == 3 {
			confirmed = append(confirmed, s)
		}
	}
	return confirmed
}
