package mc

import (
	"fmt"
	"runtime"
	"sync"
	"sync/atomic"
)

// ParallelFor runs f(i) for i in [0,n) on all cores; stops handing out work when stop() is true.
// The set of indices executed is deterministic unless the deadline cap fires (then recorded).
func (r *Run) ParallelFor(n int, f func(i int)) {
	workers := runtime.GOMAXPROCS(0)
	if r.Replaying() {
		workers = 1
	}
	var next int64 = -1
	var wg sync.WaitGroup
	for w := 0; w < workers; w++ {
		wg.Add(1)
		go func() {
			defer wg.Done()
			for {
				i := int(atomic.AddInt64(&next, 1))
				if i >= n {
					return
				}
				if i%64 == 0 && r.Expired() {
					atomic.StoreInt64(&next, int64(n))
					r.Set("stopped_at_index", i)
					return
				}
				f(i)
			}
		}()
	}
	wg.Wait()
}

// Case executes one identified case. f returns a deterministic observation string. In replay
// mode only the matching case runs, twice, and the two observations must agree.
func (r *Run) Case(id string, f func() string) {
	if !r.Want(id) {
		return
	}
	obs := f()
	if r.Replaying() {
		obs2 := f()
		if obs != obs2 {
			Fatal("replay of %s is not deterministic:\n first: %s\nsecond: %s", id, obs, obs2)
		}
		fmt.Printf("replay %s\n  observation (identical in 2 runs): %s\n", id, obs)
	}
}

// Guard runs f and converts a panic into (panicked=true, value).
func Guard(f func()) (panicked bool, val any) {
	defer func() {
		if x := recover(); x != nil {
			if d, ok := x.(ErrDiverged); ok {
				panic(d)
			}
			panicked, val = true, x
		}
	}()
	f()
	return
}

// Subsets calls f with every subset of {0..n-1} of size <= k, simplest (smallest) first.
func Subsets(n, k int, f func(idx []int)) {
	var rec func(start int, cur []int, size int)
	for size := 0; size <= k && size <= n; size++ {
		rec = func(start int, cur []int, want int) {
			if len(cur) == want {
				f(append([]int(nil), cur...))
				return
			}
			for i := start; i < n; i++ {
				rec(i+1, append(cur, i), want)
			}
		}
		rec(0, nil, size)
	}
}

// Product enumerates the cartesian product of the given dimension sizes.
func Product(dims []int, f func(ix []int)) {
	for _, d := range dims {
		if d == 0 {
			return
		}
	}
	ix := make([]int, len(dims))
	for {
		f(append([]int(nil), ix...))
		k := len(dims) - 1
		for k >= 0 {
			ix[k]++
			if ix[k] < dims[k] {
				break
			}
			ix[k] = 0
			k--
		}
		if k < 0 {
			return
		}
	}
}

// Permutations calls f with every permutation of 0..n-1.
func Permutations(n int, f func(p []int)) {
	p := make([]int, n)
	for i := range p {
		p[i] = i
	}
	var rec func(k int)
	rec = func(k int) {
		if k == n {
			f(append([]int(nil), p...))
			return
		}
		for i := k; i < n; i++ {
			p[k], p[i] = p[i], p[k]
			rec(k + 1)
			p[k], p[i] = p[i], p[k]
		}
	}
	rec(0)
}
