package mc

import (
	"runtime"
	"sync"
)

// E3 — explicit-state breadth-first search over histories. States are real objects; the caller
// provides the successor function (clone + one real command) and the canonical form used for
// deduplication. Successors of one level are computed in parallel.

// Node is one reached state.
type Node struct {
	State any
	Hist  []string
	Depth int
}

// BFS explores to maxDepth (or closure when the frontier empties first).
type BFS struct {
	Canon   func(state any) string
	Actions func(n *Node) []string
	// Apply returns the successor state (a new object; n.State must not be modified) or nil when
	// the action is not applicable. It also runs the per-transition checks.
	Apply func(n *Node, action string) any
	// Drop releases a state that was merged into an existing one.
	Drop     func(state any)
	MaxDepth int
	Stop     func() bool
	// MaxStates (0 = unbounded) ends the search, with CapHit set, once that many distinct states
	// exist: a defect that makes the state space unbounded must not make the check run away.
	MaxStates int

	States      int
	Transitions int
	DepthDone   int
	Closed      bool
	CapHit      bool
}

// Run performs the search from init.
func (b *BFS) Run(init any) {
	seen := map[string]bool{short(b.Canon(init)): true}
	b.States = 1
	frontier := []*Node{{State: init}}
	for depth := 0; depth < b.MaxDepth && len(frontier) > 0; depth++ {
		type job struct {
			n *Node
			a string
		}
		var jobs []job
		for _, n := range frontier {
			for _, a := range b.Actions(n) {
				jobs = append(jobs, job{n, a})
			}
		}
		results := make([]any, len(jobs))
		var wg sync.WaitGroup
		sem := make(chan struct{}, runtime.GOMAXPROCS(0))
		stopped := false
		for i, j := range jobs {
			if b.Stop != nil && b.Stop() {
				stopped = true
				break
			}
			i, j := i, j
			wg.Add(1)
			sem <- struct{}{}
			go func() {
				defer wg.Done()
				defer func() { <-sem }()
				results[i] = b.Apply(j.n, j.a)
			}()
		}
		wg.Wait()
		var next []*Node
		for i, j := range jobs {
			s := results[i]
			if s == nil {
				continue
			}
			b.Transitions++
			k := short(b.Canon(s))
			if seen[k] {
				if b.Drop != nil {
					b.Drop(s)
				}
				continue
			}
			seen[k] = true
			b.States++
			next = append(next, &Node{State: s, Hist: append(append([]string(nil), j.n.Hist...), j.a), Depth: depth + 1})
		}
		if stopped || (b.MaxStates > 0 && b.States > b.MaxStates) {
			b.CapHit = true
			return
		}
		b.DepthDone = depth + 1
		frontier = next
	}
	b.Closed = len(frontier) == 0
}
