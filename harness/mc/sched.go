package mc

import (
	"fmt"
	"strings"
)

// E2 — cooperative scheduler. Harness threads are goroutines that run only while they hold the
// baton; Point hands the baton back to the scheduler, which asks the Chooser which enabled thread
// runs next. Enabled order is canonical (running thread first if still enabled, then ascending
// ids) so choice 0 means "no preemption" and every alternative at a point where the running
// thread is still enabled costs one preemption.

// Sched is one execution's scheduler.
type Sched struct {
	c       *Chooser
	threads []*sthread
	cur     int
	Steps   int
	Horizon int
	events  chan int // thread id that yielded or finished
	// Observe, if set, is called after every step with the pc vector; it returns a state key.
	Observe func(pcs []string) string
	States  map[string]struct{}
	Trace   []string
	Aborted bool
	// Deadlock is set when threads remain but none is enabled (all wait on conditions that no
	// running thread can make true).
	Deadlock bool
}

type sthread struct {
	id     int
	resume chan bool // false = abort
	done   bool
	site   string
	body   func()
	Panic  any
	wait   func() bool // non-nil while the thread is blocked: it is enabled only when wait() holds
}

type schedAbort struct{}

// NewSched creates a scheduler driven by c.
func NewSched(c *Chooser) *Sched {
	return &Sched{c: c, cur: -1, Horizon: 20000, events: make(chan int), States: map[string]struct{}{}}
}

// Spawn registers a thread parked at its first point.
func (s *Sched) Spawn(body func()) int {
	t := &sthread{id: len(s.threads), resume: make(chan bool), body: body, site: "start"}
	s.threads = append(s.threads, t)
	return t.id
}

// Point is the scheduling point called from instrumented code (via vhook.PointFn). It must only
// be reached from a thread that currently holds the baton.
func (s *Sched) Point(site string) {
	if s.cur < 0 {
		return // not inside a scheduled section
	}
	t := s.threads[s.cur]
	t.site = site
	s.events <- t.id
	if !<-t.resume {
		panic(schedAbort{})
	}
}

// Block is a scheduling point at which the calling thread waits for a condition (a lock to be
// free, a once to complete, a counter to reach zero): the thread is not enabled, and therefore never
// chosen, until ready() holds. This is how waiting is made visible: a blocked thread neither spins
// nor holds the baton.
func (s *Sched) Block(site string, ready func() bool) {
	if s.cur < 0 {
		return
	}
	t := s.threads[s.cur]
	t.site = site
	t.wait = ready
	s.events <- t.id
	if !<-t.resume {
		panic(schedAbort{})
	}
	t.wait = nil
}

// Run executes all threads to completion under the chooser's schedule.
func (s *Sched) Run() {
	for _, t := range s.threads {
		t := t
		go func() {
			defer func() {
				if x := recover(); x != nil {
					if _, ok := x.(schedAbort); !ok {
						t.Panic = x
					}
				}
				t.done = true
				t.site = "end"
				s.events <- t.id
			}()
			if !<-t.resume {
				panic(schedAbort{})
			}
			t.body()
		}()
	}
	for {
		var enabled []int
		ready := func(t *sthread) bool { return !t.done && (t.wait == nil || t.wait()) }
		curEnabled := s.cur >= 0 && ready(s.threads[s.cur])
		if curEnabled {
			enabled = append(enabled, s.cur)
		}
		live := 0
		for _, t := range s.threads {
			if !t.done {
				live++
			}
			if t.id != s.cur && ready(t) {
				enabled = append(enabled, t.id)
			}
		}
		if len(enabled) == 0 {
			if live > 0 {
				s.Deadlock = true
				s.abort()
				return
			}
			break
		}
		if s.Steps >= s.Horizon {
			s.abort()
			return
		}
		var ch int
		label := fmt.Sprintf("sched@%s", s.pcs())
		if len(enabled) == 1 {
			ch = 0
		} else if curEnabled {
			ch = s.c.Choose(len(enabled), label)
		} else {
			ch = s.c.ChooseFree(len(enabled), label)
		}
		next := enabled[ch]
		s.cur = next
		s.Steps++
		s.threads[next].resume <- true
		<-s.events
		if s.Observe != nil {
			s.States[s.Observe(s.pcVector())] = struct{}{}
		}
		s.Trace = append(s.Trace, fmt.Sprintf("t%d>%s", next, s.threads[next].site))
	}
	s.cur = -1
}

func (s *Sched) abort() {
	s.Aborted = true
	for _, t := range s.threads {
		if !t.done {
			t.resume <- false
			<-s.events
		}
	}
	s.cur = -1
}

func (s *Sched) pcVector() []string {
	out := make([]string, len(s.threads))
	for i, t := range s.threads {
		out[i] = t.site
	}
	return out
}

func (s *Sched) pcs() string { return strings.Join(s.pcVector(), "|") }

// ThreadPanic returns the panic value of thread i, if it panicked.
func (s *Sched) ThreadPanic(i int) any { return s.threads[i].Panic }
