// C19 — field-path inspection returns exactly the addressed value.
//
// Engine E5: (i) all token sequences up to a length bound over the grammar's alphabet and all
// short byte strings are parsed (and, when they parse, evaluated) for totality and progress;
// (ii) every well-typed path up to a depth bound is generated from the descriptors of the test
// message and of VMGoldenMeasurement (every field, list index in/out of range, every map key kind,
// present/absent keys, several literal spellings), evaluated on fully populated messages and
// compared with a reference walker over protoreflect; (iii) byte renderings of bytes fields are
// compared with the field bytes.
package main

import (
	"bytes"
	"context"
	"encoding/base64"
	"encoding/hex"
	"fmt"
	"google.golang.org/protobuf/reflect/protopath"
	"math"
	"math/big"
	"os"
	"path/filepath"
	"strings"
	"time"
	"verifharness/kmfx"
	"verifharness/rpcli"

	"github.com/google/gce-tcb-verifier/gcetcbendorsement"
	"github.com/google/gce-tcb-verifier/gcetcbendorsement/parsepath"
	tmpb "github.com/google/gce-tcb-verifier/gcetcbendorsement/parsepath/testmessage"
	epb "github.com/google/gce-tcb-verifier/proto/endorsement"
	"github.com/google/gce-tcb-verifier/timeproto"
	"google.golang.org/protobuf/proto"
	"google.golang.org/protobuf/reflect/protoreflect"
	fmpb "google.golang.org/protobuf/types/known/fieldmaskpb"

	"verifharness/att"
	"verifharness/fx"
	"verifharness/mc"
)

var counter int32

func nested(depth int) *tmpb.Test_Nested {
	counter++
	n := &tmpb.Test_Nested{Intfield: counter, Stringfield: fmt.Sprintf("s%d", counter), Bytesfield: []byte{byte(counter), byte(counter >> 8), 0xfe}}
	if depth > 0 {
		n.Nested = populate(depth - 1)
	}
	return n
}

func populate(depth int) *tmpb.Test {
	counter++
	// Lists are long enough (11 elements) for an index written as an octal or hexadecimal
	// literal (010, 0xa) to address a present element that differs from its decimal misreading.
	t := &tmpb.Test{}
	for i := int32(0); i < 11; i++ {
		t.Int32Repeats = append(t.Int32Repeats, counter+1000*i)
	}
	if depth <= 0 {
		return t
	}
	t.Nested = nested(depth - 1)
	t.Repeats = []*tmpb.Test{populate(depth - 1)}
	for i := 0; i < 9; i++ {
		t.Repeats = append(t.Repeats, populate(0))
	}
	t.Repeats = append(t.Repeats, populate(depth-1))
	t.Strkeymap = map[string]*tmpb.Test_Nested{"a": nested(depth - 1), "b c": nested(depth - 1)}
	t.Boolkeymap = map[bool]*tmpb.Test{true: populate(depth - 1)}
	t.Int32Keymap = map[int32]*tmpb.Test{-1: populate(depth - 1), 7: populate(depth - 1)}
	t.Int64Keymap = map[int64]*tmpb.Test{1 << 40: populate(depth - 1)}
	t.Uint32Keymap = map[uint32]*tmpb.Test{1: populate(depth - 1), 4000000000: populate(depth - 1)}
	t.Uint64Keymap = map[uint64]*tmpb.Test{1 << 63: populate(depth - 1)}
	// keys whose octal / hexadecimal spelling (010, 0x10) reads as a different present key when
	// misread as decimal
	// the extreme keys of every integer kind: a literal one past a bound must not wrap onto them
	t.Int32Keymap[math.MinInt32], t.Int32Keymap[math.MaxInt32] = populate(0), populate(0)
	t.Int64Keymap[math.MinInt64], t.Int64Keymap[math.MaxInt64] = populate(0), populate(0)
	t.Uint32Keymap[0], t.Uint32Keymap[math.MaxUint32] = populate(0), populate(0)
	t.Uint64Keymap[0], t.Uint64Keymap[math.MaxUint64] = populate(0), populate(0)
	for _, k := range []int{8, 10, 16} {
		t.Int32Keymap[int32(k)] = populate(0)
		t.Int64Keymap[int64(k)] = populate(0)
		t.Uint32Keymap[uint32(k)] = populate(0)
		t.Uint64Keymap[uint64(k)] = populate(0)
	}
	return t
}

// step of a generated path with its reference interpretation.
type step struct {
	text  string
	apply func(v protoreflect.Value) (protoreflect.Value, bool) // false = addressed element absent
}

type genPath struct {
	text             string
	steps            []step
	expectParseError bool
	boundary         bool // ends in an integer literal at a bound of the key type
}

func keyTexts(k protoreflect.MapKey, kind protoreflect.Kind, thorough bool) []string {
	switch kind {
	case protoreflect.StringKind:
		s := k.String()
		out := []string{fmt.Sprintf("%q", s), "'" + s + "'"}
		if thorough && len(s) > 0 {
			out = append(out, fmt.Sprintf("\"\\x%02x%s\"", s[0], s[1:]), fmt.Sprintf("\"\\%03o%s\"", s[0], s[1:]))
		}
		return out
	case protoreflect.BoolKind:
		return []string{fmt.Sprint(k.Bool())}
	case protoreflect.Int32Kind, protoreflect.Int64Kind:
		v := k.Int()
		out := []string{fmt.Sprint(v)}
		if v >= 0 {
			out = append(out, fmt.Sprintf("0x%x", v))
			if thorough || v < 64 {
				out = append(out, fmt.Sprintf("0%o", v))
			}
		}
		return out
	default:
		v := k.Uint()
		out := []string{fmt.Sprint(v), fmt.Sprintf("0x%x", v)}
		if thorough || v < 64 {
			out = append(out, fmt.Sprintf("0%o", v))
		}
		return out
	}
}

func absentKey(kind protoreflect.Kind) (protoreflect.MapKey, string) {
	switch kind {
	case protoreflect.StringKind:
		return protoreflect.ValueOfString("zz").MapKey(), `"zz"`
	case protoreflect.BoolKind:
		return protoreflect.ValueOfBool(false).MapKey(), "false"
	case protoreflect.Int32Kind:
		return protoreflect.ValueOfInt32(12345).MapKey(), "12345"
	case protoreflect.Int64Kind:
		return protoreflect.ValueOfInt64(12345).MapKey(), "12345"
	case protoreflect.Uint32Kind:
		return protoreflect.ValueOfUint32(12345).MapKey(), "12345"
	default:
		return protoreflect.ValueOfUint64(12345).MapKey(), "12345"
	}
}

// generate enumerates well-typed paths from message value m (descriptor md) to the given depth
// (number of field accesses).
func generate(md protoreflect.MessageDescriptor, m protoreflect.Message, depth int, thorough bool, prefix genPath, first bool, emit func(genPath)) {
	if depth == 0 {
		return
	}
	fields := md.Fields()
	for i := 0; i < fields.Len(); i++ {
		fd := fields.Get(i)
		name := string(fd.TextName())
		txt := "." + name
		if first {
			txt = name
		}
		p := genPath{text: prefix.text + txt, steps: append(append([]step(nil), prefix.steps...), step{txt, func(v protoreflect.Value) (protoreflect.Value, bool) {
			return v.Message().Get(fd), true
		}})}
		emit(p)
		val := m.Get(fd)
		switch {
		case fd.IsList():
			n := val.List().Len()
			seenIdx := map[int]bool{}
			for _, idx := range []int{0, 1, 8, n - 1, n, 99} {
				idx := idx
				if idx < 0 || seenIdx[idx] {
					continue
				}
				seenIdx[idx] = true
				// the scanner's integer tokens: decimal, hexadecimal and octal (leading 0)
				for _, it := range []string{fmt.Sprint(idx), fmt.Sprintf("0x%x", idx), fmt.Sprintf("0%o", idx)} {
					q := genPath{text: p.text + "[" + it + "]", steps: append(append([]step(nil), p.steps...), step{"[" + it + "]", func(v protoreflect.Value) (protoreflect.Value, bool) {
						if idx >= v.List().Len() {
							return protoreflect.Value{}, false
						}
						return v.List().Get(idx), true
					}})}
					emit(q)
					if (idx == 0 || idx == n-1) && idx < n && fd.Message() != nil {
						generate(fd.Message(), val.List().Get(idx).Message(), depth-1, thorough, q, false, emit)
					}
				}
			}
		case fd.IsMap():
			kind := fd.MapKey().Kind()
			type kv struct {
				k       protoreflect.MapKey
				present bool
				texts   []string
			}
			var keys []kv
			val.Map().Range(func(k protoreflect.MapKey, _ protoreflect.Value) bool {
				keys = append(keys, kv{k, true, keyTexts(k, kind, thorough)})
				return true
			})
			ak, at := absentKey(kind)
			keys = append(keys, kv{ak, false, []string{at}})
			for _, e := range keys {
				e := e
				for _, kt := range e.texts {
					q := genPath{text: p.text + "[" + kt + "]", steps: append(append([]step(nil), p.steps...), step{"[" + kt + "]", func(v protoreflect.Value) (protoreflect.Value, bool) {
						got := v.Map().Get(e.k)
						return got, got.IsValid()
					}})}
					emit(q)
					if e.present && fd.MapValue().Message() != nil {
						generate(fd.MapValue().Message(), val.Map().Get(e.k).Message(), depth-1, thorough, q, false, emit)
					}
				}
			}
			// Integer literals at and just beyond the bounds of the key type, in decimal and hex: a
			// literal the key type cannot represent addresses no element (parse error or absent),
			// never the element under the value it would wrap to.
			if kind != protoreflect.StringKind && kind != protoreflect.BoolKind {
				two := big.NewInt(2)
				pow := func(n int64) *big.Int { return new(big.Int).Exp(two, big.NewInt(n), nil) }
				one := big.NewInt(1)
				var lo, hi *big.Int
				switch kind {
				case protoreflect.Int32Kind:
					lo, hi = new(big.Int).Neg(pow(31)), new(big.Int).Sub(pow(31), one)
				case protoreflect.Int64Kind:
					lo, hi = new(big.Int).Neg(pow(63)), new(big.Int).Sub(pow(63), one)
				case protoreflect.Uint32Kind:
					lo, hi = big.NewInt(0), new(big.Int).Sub(pow(32), one)
				default:
					lo, hi = big.NewInt(0), new(big.Int).Sub(pow(64), one)
				}
				var lits []*big.Int
				for _, b := range []*big.Int{lo, hi, pow(31), pow(32), pow(63), pow(64), new(big.Int).Neg(pow(31)), new(big.Int).Neg(pow(63))} {
					for _, d := range []int64{-1, 0, 1} {
						lits = append(lits, new(big.Int).Add(b, big.NewInt(d)))
					}
				}
				seenLit := map[string]bool{}
				for _, L := range lits {
					L := L
					texts := []string{L.String()}
					if L.Sign() >= 0 {
						texts = append(texts, "0x"+L.Text(16))
					} else {
						texts = append(texts, "-0x"+new(big.Int).Neg(L).Text(16))
					}
					for _, txt := range texts {
						if seenLit[txt] {
							continue
						}
						seenLit[txt] = true
						inRange := L.Cmp(lo) >= 0 && L.Cmp(hi) <= 0
						q := genPath{text: p.text + "[" + txt + "]", boundary: true, steps: append(append([]step(nil), p.steps...), step{"[" + txt + "]", func(v protoreflect.Value) (protoreflect.Value, bool) {
							if !inRange {
								return protoreflect.Value{}, false
							}
							var k protoreflect.MapKey
							switch kind {
							case protoreflect.Int32Kind:
								k = protoreflect.ValueOfInt32(int32(L.Int64())).MapKey()
							case protoreflect.Int64Kind:
								k = protoreflect.ValueOfInt64(L.Int64()).MapKey()
							case protoreflect.Uint32Kind:
								k = protoreflect.ValueOfUint32(uint32(L.Uint64())).MapKey()
							default:
								k = protoreflect.ValueOfUint64(L.Uint64()).MapKey()
							}
							got := v.Map().Get(k)
							return got, got.IsValid()
						}})}
						emit(q)
					}
				}
			}
			// wrongly typed key literals must be parse errors
			wrong := `"x"`
			if kind == protoreflect.StringKind {
				wrong = "5"
			}
			emit(genPath{text: p.text + "[" + wrong + "]", expectParseError: true})
		case fd.Message() != nil:
			if val.Message().IsValid() {
				generate(fd.Message(), val.Message(), depth-1, thorough, p, false, emit)
			}
		}
	}
}

func valueEqual(a, b protoreflect.Value) bool {
	if !a.IsValid() || !b.IsValid() {
		return a.IsValid() == b.IsValid()
	}
	switch x := a.Interface().(type) {
	case protoreflect.Message:
		y, ok := b.Interface().(protoreflect.Message)
		return ok && proto.Equal(x.Interface(), y.Interface())
	case protoreflect.List:
		y, ok := b.Interface().(protoreflect.List)
		if !ok || x.Len() != y.Len() {
			return false
		}
		for i := 0; i < x.Len(); i++ {
			if !valueEqual(x.Get(i), y.Get(i)) {
				return false
			}
		}
		return true
	case protoreflect.Map:
		y, ok := b.Interface().(protoreflect.Map)
		if !ok || x.Len() != y.Len() {
			return false
		}
		eq := true
		x.Range(func(k protoreflect.MapKey, v protoreflect.Value) bool {
			if !valueEqual(v, y.Get(k)) {
				eq = false
			}
			return eq
		})
		return eq
	case []byte:
		y, ok := b.Interface().([]byte)
		return ok && bytes.Equal(x, y)
	default:
		return a.Interface() == b.Interface()
	}
}

type buf struct{ bytes.Buffer }

func (*buf) IsTerminal() bool { return false }

func main() {
	r := mc.NewRun("C19")
	depth := mc.Pick(r, 3, 4)
	ntok := mc.Pick(r, 4, 5)
	r.Rule(fmt.Sprintf("E5: (i) all sequences of <=%d tokens over {identifiers of the message, '[', ']', '.', '(', ')', 0, 1, -1, 0x1, 07, \"a\", 'a', true, x} and all byte strings of length <=3 over {a,0,.,[,],(,),',\",\\,x,0xff,-,space}, parsed (and evaluated when they parse) for totality within a time bound; (ii) every well-typed path with <=%d field accesses generated from the descriptors of testmessage.Test and VMGoldenMeasurement (list indices in/out of range, present/absent map keys of every key kind, alternative literal spellings, implicit and explicit root), evaluated on populated messages against a reference protoreflect walker; (iii) raw/hex/base64 renderings of every bytes field against the field bytes; non-trivial = distinct well-typed paths whose value was compared", ntok, depth))
	thorough := r.Thorough()
	// ---- (ii) generated paths ------------------------------------------------------------------
	test := populate(depth)
	golden := att.Golden(map[uint32][]byte{1: att.Meas(1), 2: att.Meas(2), 240: att.Meas(3)}, att.Meas(4), true,
		[]att.TdxRow{{16, false, att.Meas(5)}, {16, true, att.Meas(6)}, {0, false, att.Meas(7)}}, true, fx.T0)
	golden.Cert, golden.CaBundle, golden.Commit = []byte("cert-bytes\x00\xff"), []byte("bundle"), bytes.Repeat([]byte{0xc0}, 20)
	golden.SevSnp.FamilyId, golden.SevSnp.ImageId, golden.SevSnp.CaBundle = bytes.Repeat([]byte{1}, 16), bytes.Repeat([]byte{2}, 16), []byte("snp-bundle")
	for _, root := range []struct {
		name string
		msg  proto.Message
	}{{"testmessage.Test", test}, {"VMGoldenMeasurement", golden}} {
		md := root.msg.ProtoReflect().Descriptor()
		var paths []genPath
		generate(md, root.msg.ProtoReflect(), depth, thorough, genPath{}, true, func(p genPath) { paths = append(paths, p) })
		// explicit-root spelling of a sample of the paths
		explicit := fmt.Sprintf("(%s)", md.FullName())
		n := len(paths)
		for i := 0; i < n; i += 7 {
			if paths[i].expectParseError {
				continue
			}
			q := paths[i]
			q.text = explicit + "." + q.text
			paths = append(paths, q)
		}
		paths = append(paths, genPath{text: ""}, genPath{text: explicit})
		r.Set("generated_paths_"+root.name, len(paths))
		r.ParallelFor(len(paths), func(i int) {
			p := paths[i]
			id := fmt.Sprintf("typed root=%s path=%s", root.name, p.text)
			r.Case(id, func() string {
				var got protoreflect.Value
				var perr, verr error
				pan, val := mc.Guard(func() {
					pp, e := parsepath.ParsePath(md, p.text)
					perr = e
					if e == nil {
						vs, e2 := parsepath.PathValues(pp, root.msg)
						verr = e2
						if e2 == nil {
							got = vs.Index(-1).Value
						}
					}
				})
				r.Eval()
				viol := func(what, msg string) { r.Violation("typed/"+what, id, msg, nil) }
				if pan {
					viol("panic", fmt.Sprintf("panicked: %v", val))
					return "panic"
				}
				r.Validated()
				if p.expectParseError {
					// A key literal of the wrong type addresses no element: the statement allows a
					// parse error, or a path whose evaluation reports the element absent.
					if perr == nil && verr == nil {
						viol("wrongly-typed-key-returned-value", "a map key literal of the wrong type was parsed and evaluation returned a value")
					}
					r.Outcome("wrongly-typed-key-refused")
					return fmt.Sprint("wrong key", perr != nil, verr != nil)
				}
				if perr != nil {
					// "parsing either fails with an error or ...": a refusal is always allowed by
					// the statement; it is only counted so that a vacuous run is visible.
					r.Outcome("well-typed-path-refused-by-parser")
					return "parse error"
				}
				// reference walk
				want := protoreflect.ValueOf(root.msg.ProtoReflect())
				present := true
				for _, s := range p.steps {
					want, present = s.apply(want)
					if !present {
						break
					}
				}
				switch {
				case !present && verr == nil:
					viol("absent-element-returned", "evaluation returned a value for an absent list index / map key")
				case present && verr != nil:
					viol("present-element-error", "evaluation fails although the addressed element exists: "+verr.Error())
				case present && !valueEqual(got, want):
					viol("wrong-value", fmt.Sprintf("evaluation returned %v, walking the message gives %v", short(got), short(want)))
				}
				if present {
					r.Nontrivial(id)
					r.Outcome("value")
				} else {
					r.Outcome("absent")
				}
				if r.State(fmt.Sprintf("%s steps=%d present=%v", root.name, len(p.steps), present)) {
					r.Sample(map[string]any{"root": root.name, "path": p.text, "present": present, "value": short(want)})
				}
				return fmt.Sprint(present, verr)
			})
		})
		// History: parse first, evaluate later. Blocks of 64 paths are parsed one after the other in
		// one goroutine and kept; only then is each kept path evaluated. A parsed path must stay what
		// it was when later parses run (no storage shared with the parser).
		const block = 64
		nblocks := (len(paths) + block - 1) / block
		r.ParallelFor(nblocks, func(bi int) {
			lo, hi := bi*block, (bi+1)*block
			if hi > len(paths) {
				hi = len(paths)
			}
			id := fmt.Sprintf("typed-held root=%s block=%d first=%s", root.name, bi, paths[lo].text)
			r.Case(id, func() string {
				kept := make([]protopath.Path, hi-lo)
				ok := make([]bool, hi-lo)
				bad := 0
				pan, val := mc.Guard(func() {
					for i := lo; i < hi; i++ {
						if paths[i].expectParseError {
							continue
						}
						if pp, e := parsepath.ParsePath(md, paths[i].text); e == nil {
							kept[i-lo], ok[i-lo] = pp, true
						}
					}
					for i := lo; i < hi; i++ {
						if !ok[i-lo] {
							continue
						}
						p := paths[i]
						want := protoreflect.ValueOf(root.msg.ProtoReflect())
						present := true
						for _, st := range p.steps {
							if want, present = st.apply(want); !present {
								break
							}
						}
						vs, e := parsepath.PathValues(kept[i-lo], root.msg)
						r.Eval()
						switch {
						case !present && e == nil:
							bad++
							r.Violation("typed-held/absent-element-returned", id, fmt.Sprintf("path %q, parsed earlier and evaluated after %d later parses, returns a value for an absent element", p.text, hi-1-i), nil)
						case present && e != nil:
							bad++
							r.Violation("typed-held/present-element-error", id, fmt.Sprintf("path %q, parsed earlier and evaluated after later parses, fails although the element exists: %v", p.text, e), nil)
						case present && !valueEqual(vs.Index(-1).Value, want):
							bad++
							r.Violation("typed-held/wrong-value", id, fmt.Sprintf("path %q, parsed earlier and evaluated after later parses, returns %v; walking the message gives %v", p.text, short(vs.Index(-1).Value), short(want)), nil)
						}
					}
				})
				if pan {
					r.Violation("typed-held/panic", id, fmt.Sprintf("panicked: %v", val), nil)
				}
				r.Validated()
				r.Outcome("held-block")
				return fmt.Sprint(bad)
			})
		})
	}
	// ---- (i) totality of scanner, parser and evaluator ------------------------------------------
	tokens := []string{"nested", "repeats", "strkeymap", "int32keymap", "boolkeymap", "intfield", "key", "[", "]", ".", "(", ")", "0", "1", "-1", "0x1", "07", `"a"`, `'a'`, "true", "x", `"\`, `'`}
	alphabet := []byte{'a', '0', '.', '[', ']', '(', ')', '\'', '"', '\\', 'x', 0xff, '-', ' ', '\n', 0}
	var inputs []string
	var rec func(cur string, n int)
	rec = func(cur string, n int) {
		inputs = append(inputs, cur)
		if n == 0 {
			return
		}
		for _, t := range tokens {
			rec(cur+t, n-1)
		}
	}
	rec("", ntok)
	var recb func(cur []byte, n int)
	recb = func(cur []byte, n int) {
		inputs = append(inputs, string(cur))
		if n == 0 {
			return
		}
		for _, b := range alphabet {
			recb(append(append([]byte(nil), cur...), b), n-1)
		}
	}
	recb(nil, mc.Pick(r, 3, 4))
	r.Set("totality_inputs", len(inputs))
	tmd := test.ProtoReflect().Descriptor()
	const batch = 20000
	nb := (len(inputs) + batch - 1) / batch
	r.ParallelFor(nb, func(bi int) {
		lo, hi := bi*batch, (bi+1)*batch
		if hi > len(inputs) {
			hi = len(inputs)
		}
		done := make(chan struct{})
		cur := ""
		go func() {
			defer close(done)
			for _, in := range inputs[lo:hi] {
				cur = in
				id := fmt.Sprintf("totality input=%q", in)
				if !r.Want(id) {
					continue
				}
				pan, val := mc.Guard(func() {
					if pp, err := parsepath.ParsePath(tmd, in); err == nil {
						parsepath.PathValues(pp, test)
					}
				})
				r.Eval()
				if pan {
					r.Violation("totality/panic", id, fmt.Sprintf("ParsePath/PathValues panicked on %q: %v", in, val), nil)
				}
			}
		}()
		select {
		case <-done:
		case <-time.After(120 * time.Second):
			r.Violation("totality/no-progress", fmt.Sprintf("totality input=%q", cur), fmt.Sprintf("parsing did not finish (stuck near %q)", cur), nil)
		}
	})
	// ---- (iii) byte renderings -------------------------------------------------------------------
	payload, _ := proto.Marshal(golden)
	end := &epb.VMLaunchEndorsement{SerializedUefiGolden: payload, Signature: []byte{0, 1, 2, 0xff, '\n'}}
	byteFields := map[string][]byte{"digest": golden.Digest, "cert": golden.Cert, "ca_bundle": golden.CaBundle, "commit": golden.Commit,
		"sev_snp.measurements[1]": golden.SevSnp.Measurements[1], "sev_snp.measurements[240]": golden.SevSnp.Measurements[240], "sev_snp.svsm_measurement": golden.SevSnp.SvsmMeasurement,
		"sev_snp.family_id": golden.SevSnp.FamilyId, "sev_snp.ca_bundle": golden.SevSnp.CaBundle, "tdx.measurements[0].mrtd": golden.Tdx.Measurements[0].Mrtd, "tdx.measurements[2].mrtd": golden.Tdx.Measurements[2].Mrtd}
	forms := map[string]struct {
		f   gcetcbendorsement.BytesForm
		enc func([]byte) []byte
	}{"raw": {gcetcbendorsement.BytesRaw, func(b []byte) []byte { return b }}, "auto(non-terminal)": {gcetcbendorsement.BytesAuto, func(b []byte) []byte { return b }},
		"hex":    {gcetcbendorsement.BytesHex, func(b []byte) []byte { return []byte(hex.EncodeToString(b)) }},
		"base64": {gcetcbendorsement.BytesBase64, func(b []byte) []byte { return []byte(base64.StdEncoding.EncodeToString(b)) }}}
	for path, want := range byteFields {
		for fname, form := range forms {
			id := fmt.Sprintf("render path=%s form=%s", path, fname)
			r.Case(id, func() string {
				w := &buf{}
				ctx := gcetcbendorsement.WithInspect(nil2ctx(), &gcetcbendorsement.Inspect{Writer: w, Form: form.f})
				err := gcetcbendorsement.InspectMask(ctx, end, &fmpb.FieldMask{Paths: []string{path}})
				r.Eval()
				r.Validated()
				if err != nil || !bytes.Equal(w.Bytes(), form.enc(want)) {
					r.Violation("render/bytes-not-exact", id, fmt.Sprintf("rendering of %s in form %s is not the exact field bytes (err %v)", path, fname, err), nil)
				}
				r.Nontrivial(id)
				return fmt.Sprint(err)
			})
		}
	}
	for name, f := range map[string]func() ([]byte, []byte, error){
		"payload": func() ([]byte, []byte, error) {
			w := &buf{}
			err := gcetcbendorsement.InspectPayload(gcetcbendorsement.WithInspect(nil2ctx(), &gcetcbendorsement.Inspect{Writer: w, Form: gcetcbendorsement.BytesRaw}), end)
			return w.Bytes(), end.SerializedUefiGolden, err
		},
		"signature": func() ([]byte, []byte, error) {
			w := &buf{}
			err := gcetcbendorsement.InspectSignature(gcetcbendorsement.WithInspect(nil2ctx(), &gcetcbendorsement.Inspect{Writer: w, Form: gcetcbendorsement.BytesRaw}), end)
			return w.Bytes(), end.Signature, err
		},
	} {
		got, want, err := f()
		r.Eval()
		if err != nil || !bytes.Equal(got, want) {
			r.Violation("render/"+name+"-not-exact", "render "+name, "raw "+name+" output differs from the stored bytes", nil)
		}
	}
	// The same renderings through the inspect commands over the real file system, into an output
	// file that already exists and holds something longer (the file an external tool will read must
	// hold the exact bytes, not the exact bytes followed by what was there before).
	if rpcli.Available {
		dir := filepath.Join(kmfx.ScratchRoot(), "c19-cli")
		os.MkdirAll(dir, 0o755)
		endBytes, _ := proto.Marshal(end)
		endPath := filepath.Join(dir, "endorsement.binarypb")
		os.WriteFile(endPath, endBytes, 0o644)
		type cliCase struct {
			name string
			args []string
			want []byte
		}
		cases := []cliCase{
			{"payload", []string{"inspect", "payload", endPath, "--bytesform=bin"}, end.SerializedUefiGolden},
			{"signature", []string{"inspect", "signature", endPath, "--bytesform=bin"}, end.Signature},
			{"mask digest", []string{"inspect", "mask", endPath, "--path=digest", "--bytesform=bin"}, golden.Digest},
			{"mask sev_snp.measurements[1] hex", []string{"inspect", "mask", endPath, "--path=sev_snp.measurements[1]", "--bytesform=hex"}, []byte(hex.EncodeToString(golden.SevSnp.Measurements[1]))},
		}
		for ci, cc := range cases {
			for _, prior := range []int{-1, 0, 4096} {
				ci, cc, prior := ci, cc, prior
				id := fmt.Sprintf("render-cli %s out-file-before=%d", cc.name, prior)
				r.Case(id, func() string {
					out := filepath.Join(dir, fmt.Sprintf("out-%d-%d", ci, prior))
					os.Remove(out)
					if prior >= 0 {
						os.WriteFile(out, bytes.Repeat([]byte{'Z'}, prior), 0o644)
					}
					res := rpcli.RunOS(fx.T0, nil, append(append([]string(nil), cc.args...), "--out="+out)...)
					r.Eval()
					r.Validated()
					got, _ := os.ReadFile(out)
					switch {
					case res.Panicked != nil:
						r.Violation("render/cli-panic", id, fmt.Sprintf("inspect panicked: %v", res.Panicked), nil)
					case res.Err != nil:
						r.Outcome("render-cli:refused")
					case !bytes.Equal(got, cc.want):
						r.Violation("render/cli-output-file-not-exact", id, fmt.Sprintf("inspect %s wrote a file of %d bytes that is not exactly the %d rendered bytes (the file held %d bytes before)", cc.name, len(got), len(cc.want), prior), nil)
					default:
						r.Nontrivial(id)
						r.Outcome("render-cli:exact")
					}
					return fmt.Sprint(len(got), res.Err)
				})
			}
		}
	} else {
		r.Degraded("in-process CLI (overlay export of the backend key did not build)")
	}
	_ = timeproto.To
	_ = strings.Join
	r.Finish()
}

func firstLine(s string) string {
	if i := strings.IndexByte(s, '\n'); i >= 0 {
		return s[:i]
	}
	return s
}

func short(v protoreflect.Value) string {
	if !v.IsValid() {
		return "<invalid>"
	}
	s := fmt.Sprint(v.Interface())
	if len(s) > 80 {
		s = s[:80] + "…"
	}
	return s
}

func nil2ctx() context.Context { return context.Background() }
