// C14 — commit retries are bounded, fresh and honest.
//
// Engine E1: every sequence of per-attempt outcomes of a scripted VersionControl/ChangeOps double
// is enumerated (full choice tree, no deviation bound) for every retry budget, driving the real
// endorse.VirtualFirmware -> commitEndorsement -> RetrySubmit -> tryChange -> changeEndorsements.
package main

import (
	"bytes"
	"context"
	"crypto/sha512"
	"errors"
	"fmt"
	"runtime"
	"sort"
	"strings"
	"sync"

	"github.com/google/gce-tcb-verifier/cmd/output"
	"github.com/google/gce-tcb-verifier/endorse"
	epb "github.com/google/gce-tcb-verifier/proto/endorsement"
	rpb "github.com/google/gce-tcb-verifier/proto/releases"
	"github.com/google/gce-tcb-verifier/sev"
	sgpb "github.com/google/go-sev-guest/proto/sevsnp"
	"google.golang.org/protobuf/encoding/prototext"
	"google.golang.org/protobuf/proto"

	"verifharness/fx"
	"verifharness/mc"
)

var (
	errRetriable = errors.New("scripted: retriable failure")
	errPermanent = errors.New("scripted: permanent failure")
	errNotFound  = errors.New("scripted: not found")
)

type vcs struct {
	c                *mc.Chooser
	head             map[string][]byte
	headVer          int
	log              []string
	spaces           []*ws
	results          []string
	commits          []int // workspace index of each successful commit
	concur           []string
	lastErrRetriable []bool
	opsAfterEnd      int
	finished         bool
}

type ws struct {
	v                       *vcs
	id                      int
	base                    map[string][]byte
	baseVer                 int
	writes                  map[string][]byte
	destroyed               int
	committed               bool
	readManifestBeforeWrite bool
	readManifest            bool
	staleUse                int // operations after Destroy or after a newer workspace exists
}

func (v *vcs) outcome(label string) error {
	switch v.c.Choose(3, label) {
	case 1:
		return errRetriable
	case 2:
		return errPermanent
	}
	return nil
}

func (v *vcs) GetChangeOps(context.Context) (endorse.ChangeOps, error) {
	if v.finished {
		v.opsAfterEnd++
	}
	// A concurrent writer may commit before this attempt's workspace is created.
	if v.c.Choose(2, "concurrent-writer-before-attempt") == 1 {
		v.concurrentCommit()
	}
	if err := v.outcome("GetChangeOps"); err != nil {
		v.log = append(v.log, "GetChangeOps:"+err.Error())
		v.spaces = append(v.spaces, nil)
		return nil, err
	}
	w := &ws{v: v, id: len(v.spaces), base: map[string][]byte{}, baseVer: v.headVer, writes: map[string][]byte{}}
	for k, b := range v.head {
		w.base[k] = b
	}
	v.spaces = append(v.spaces, w)
	v.log = append(v.log, fmt.Sprintf("GetChangeOps:ws%d", w.id))
	return w, nil
}

func (v *vcs) concurrentCommit() {
	n := len(v.concur)
	p := fmt.Sprintf("other-%d.binarypb", n)
	m := &rpb.VMEndorsementMap{}
	if b, ok := v.head["out/manifest.textproto"]; ok {
		if err := prototext.Unmarshal(b, m); err != nil {
			panic("harness: head manifest does not parse: " + err.Error())
		}
	}
	d := sha512.Sum384([]byte(p))
	m.Entries = append(m.Entries, &rpb.VMEndorsementMap_Entry{Digest: d[:], Path: p})
	b, _ := prototext.Marshal(m)
	v.head["out/manifest.textproto"] = b
	v.head["out/"+p] = []byte("other")
	v.headVer++
	v.concur = append(v.concur, p)
	v.log = append(v.log, "concurrent-commit:"+p)
}

func (v *vcs) RetriableError(err error) bool { return errors.Is(err, errRetriable) }
func (v *vcs) Result(commit any, p string) {
	v.results = append(v.results, fmt.Sprintf("%v|%s", commit, p))
	v.log = append(v.log, fmt.Sprintf("Result:%v:%s", commit, p))
}
func (v *vcs) ReleasePath(_ context.Context, p string) string { return p }

func (w *ws) touch(op string) {
	if w.destroyed > 0 || w.id != len(w.v.spaces)-1 || w.committed {
		w.staleUse++
	}
	if w.v.finished {
		w.v.opsAfterEnd++
	}
	w.v.log = append(w.v.log, fmt.Sprintf("ws%d.%s", w.id, op))
}

func (w *ws) WriteOrCreateFiles(_ context.Context, files ...*endorse.File) error {
	var names []string
	for _, f := range files {
		names = append(names, f.Path)
	}
	w.touch("Write(" + strings.Join(names, ",") + ")")
	if err := w.v.outcome("Write"); err != nil {
		return err
	}
	for _, f := range files {
		if f.Path == "out/manifest.textproto" && w.readManifest {
			w.readManifestBeforeWrite = true
		}
		w.writes[f.Path] = append([]byte(nil), f.Contents...)
	}
	return nil
}

func (w *ws) ReadFile(_ context.Context, p string) ([]byte, error) {
	w.touch("Read(" + p + ")")
	if err := w.v.outcome("Read"); err != nil {
		return nil, err
	}
	if p == "out/manifest.textproto" {
		w.readManifest = true
	}
	if b, ok := w.writes[p]; ok {
		return b, nil
	}
	if b, ok := w.base[p]; ok {
		return b, nil
	}
	return nil, errNotFound
}

func (w *ws) SetBinaryWritable(_ context.Context, p string) error {
	w.touch("Chmod(" + p + ")")
	return w.v.outcome("Chmod")
}
func (w *ws) IsNotFound(err error) bool { return errors.Is(err, errNotFound) }
func (w *ws) Destroy() {
	w.destroyed++
	w.v.log = append(w.v.log, fmt.Sprintf("ws%d.Destroy", w.id))
}
func (w *ws) TryCommit(context.Context) (any, error) {
	w.touch("TryCommit")
	switch w.v.c.Choose(4, "TryCommit") {
	case 1:
		return nil, errRetriable
	case 2:
		return nil, errPermanent
	case 3: // a concurrent writer gets in first: the back end reports a retriable conflict
		w.v.concurrentCommit()
	}
	if w.v.headVer != w.baseVer {
		return nil, fmt.Errorf("conflict: head moved: %w", errRetriable)
	}
	for k, b := range w.writes {
		w.v.head[k] = b
	}
	w.v.headVer++
	w.committed = true
	w.v.commits = append(w.v.commits, w.id)
	return fmt.Sprintf("commit-of-ws%d", w.id), nil
}

type fixture struct {
	auth  *fx.Authority
	image []byte
}

func runOne(f *fixture, budget int, c *mc.Chooser) (v *vcs, err error, panicked any) {
	v = &vcs{c: c, head: map[string][]byte{}}
	ec := &endorse.Context{
		SevSnp:        &sev.SnpEndorsementRequest{LaunchVmsas: 1, ImageID: "87654321-dead-beef-c0de-123456789abc", Product: sgpb.SevProduct_SEV_PRODUCT_MILAN},
		Image:         f.image,
		ClSpec:        42,
		Timestamp:     fx.T0,
		VCS:           v,
		CommitRetries: budget,
		OutDir:        "out",
	}
	// the global --keep_going option is part of the explored space (choice 0 = off)
	keepGoing := c.Choose(2, "option:keep_going") == 1
	ctx := output.NewContext(f.auth.Ctx(), &output.Options{Quiet: true, KeepGoing: keepGoing})
	ctx = endorse.NewContext(ctx, ec)
	p, val := mc.Guard(func() { err = endorse.VirtualFirmware(ctx) })
	if p {
		panicked = val
	}
	v.finished = true
	return
}

func main() {
	r := mc.NewRun("C14")
	r.Rule("E1 full choice tree: --keep_going off/on x per attempt {concurrent writer before the attempt: no/yes} x GetChangeOps{ok,retriable,permanent} x each ReadFile/WriteOrCreateFiles/SetBinaryWritable{ok,retriable,permanent} x TryCommit{ok,retriable,permanent,concurrent-writer-conflict}; for every retry budget -2..2 (thorough 3); plus two scripted deep lines each for budgets 31, 32, 33, 64; non-trivial = distinct (budget, per-attempt outcome sequence) with at least one injected failure or concurrent writer")
	r.Assume("the back end reports a commit against a moved head as a retriable conflict (scripted double does)")
	r.Assume("'retries-plus-one' is read as max(budget,0)+1 for negative budgets")
	auth, err := fx.NewAuthority(fx.T0, "c14")
	if err != nil {
		mc.Fatal("authority: %v", err)
	}
	f := &fixture{auth: auth, image: fx.SmallImage(0x3000)}
	budgets := mc.Pick(r, []int{-2, -1, 0, 1, 2}, []int{-2, -1, 0, 1, 2, 3})
	var mu sync.Mutex
	depth := 0
	for _, budget := range budgets {
		budget := budget
		ex := &mc.Explorer{Bound: -1, Workers: runtime.GOMAXPROCS(0), Stop: r.Expired}
		if r.Replaying() {
			ex.Workers = 1
		}
		body := func(c *mc.Chooser) string {
			v, err, pan := runOne(f, budget, c)
			r.Eval()
			r.Transition(len(c.Points))
			obs := check(r, f, budget, c, v, err, pan)
			r.Validated()
			return obs
		}
		if r.Replaying() {
			// case id: "budget=<b> choices=<list>"
			var b int
			var cs string
			if _, err := fmt.Sscanf(r.ReplayID, "budget=%d choices=%s", &b, &cs); err != nil || b != budget {
				if !strings.HasPrefix(r.ReplayID, fmt.Sprintf("budget=%d choices=", budget)) {
					continue
				}
			}
			cs = strings.TrimPrefix(r.ReplayID, fmt.Sprintf("budget=%d choices=", budget))
			r.Case(r.ReplayID, func() string { return body(mc.NewChooser(mc.ParseChoices(cs))) })
			continue
		}
		ex.Body = func(c *mc.Chooser) { body(c) }
		ex.Run()
		mu.Lock()
		if ex.MaxDepth > depth {
			depth = ex.MaxDepth
		}
		mu.Unlock()
		r.Add(fmt.Sprintf("executions_budget_%d", budget), ex.Execs)
		if ex.CapHit {
			r.Cap(fmt.Sprintf("budget %d stopped early", budget))
		}
	}
	// Deep, narrow lines: the tree above covers every outcome sequence for small budgets; a bound on
	// attempts that only gives way at a larger scale (a capped history, a counter of limited width)
	// needs budgets beyond any tree. For budgets 31..64 two scripted executions each: the commit
	// fails retriably until the budget is spent and beyond (the run must stop after budget+1
	// attempts), and the commit fails retriably exactly budget times (the last allowed attempt wins).
	deepBudgets := []int{31, 32, 33, 64}
	type script struct {
		name      string
		failFirst func(b int) int // number of attempts whose commit fails retriably before commits succeed
	}
	scripts := []script{{"retriable-beyond-the-budget", func(b int) int { return b + 5 }}, {"retriable-exactly-budget-times", func(b int) int { return b }}}
	for _, budget := range deepBudgets {
		for _, sc := range scripts {
			budget, sc := budget, sc
			mkChooser := func() *mc.Chooser {
				attempt := 0
				c := mc.NewChooser(nil)
				c.Policy = func(n int, label string, _ int) int {
					switch label {
					case "concurrent-writer-before-attempt":
						attempt++
					case "TryCommit":
						if attempt <= sc.failFirst(budget) {
							return 1 // retriable
						}
					}
					return 0
				}
				return c
			}
			run := func(c *mc.Chooser) string {
				v, err, pan := runOne(f, budget, c)
				r.Eval()
				r.Transition(len(c.Points))
				obs := check(r, f, budget, c, v, err, pan)
				r.Validated()
				r.Outcome("deep-line:" + sc.name)
				return obs
			}
			if r.Replaying() {
				pfx := fmt.Sprintf("budget=%d choices=", budget)
				if strings.HasPrefix(r.ReplayID, pfx) {
					r.Case(r.ReplayID, func() string { return run(mc.NewChooser(mc.ParseChoices(strings.TrimPrefix(r.ReplayID, pfx)))) })
				}
				continue
			}
			run(mkChooser())
		}
	}
	r.Set("deep_line_budgets", deepBudgets)
	r.Set("budgets", budgets)
	r.Set("max_choice_points_per_execution", depth)
	r.Finish()
}

func caseID(budget int, c *mc.Chooser) string {
	return fmt.Sprintf("budget=%d choices=%s", budget, mc.ChoicesString(c.Choices()))
}

func check(r *mc.Run, f *fixture, budget int, c *mc.Chooser, v *vcs, err error, pan any) string {
	id := caseID(budget, c)
	fail := func(key, what string) {
		r.Violation(key, id, what, map[string]any{"budget": budget, "trace": c.Trace(), "log": v.log, "err": fmt.Sprint(err)})
	}
	if pan != nil {
		fail("panic", fmt.Sprintf("endorse.VirtualFirmware panicked: %v", pan))
		return "panic"
	}
	attempts := len(v.spaces)
	maxAttempts := budget + 1
	if budget < 0 {
		maxAttempts = 1
	}
	if attempts > maxAttempts {
		fail("too-many-attempts", fmt.Sprintf("%d attempts with retry budget %d (max %d)", attempts, budget, maxAttempts))
	}
	if attempts == 0 {
		r.Outcome("no-attempt") // an honest refusal before any attempt is allowed by the statement
	}
	// Classify each attempt's outcome from the choices, in order.
	var kinds []string
	{
		att := -1
		cur := ""
		for _, p := range c.Points {
			if strings.HasPrefix(p.Label, "option:") {
				continue
			}
			if p.Label == "concurrent-writer-before-attempt" {
				if att >= 0 {
					kinds = append(kinds, cur)
				}
				att++
				cur = "ok"
				if p.Choice == 1 {
					cur = "cw+ok"
				}
				continue
			}
			if p.Choice != 0 && !strings.Contains(cur, "!") {
				pre := strings.TrimSuffix(cur, "ok")
				switch {
				case p.Label == "TryCommit" && p.Choice == 3:
					cur = pre + "!conflict"
				case p.Choice == 1:
					cur = pre + "!retriable@" + p.Label
				default:
					cur = pre + "!permanent@" + p.Label
				}
			}
		}
		if att >= 0 {
			kinds = append(kinds, cur)
		}
	}
	// A stale-head conflict is also a retriable failure.
	// Retry only after retriable errors: every attempt but the last must have failed retriably.
	for i := 0; i < len(kinds)-1; i++ {
		k := kinds[i]
		if strings.Contains(k, "!permanent") {
			fail("retry-after-permanent", fmt.Sprintf("attempt %d failed permanently (%s) but attempt %d followed", i, k, i+1))
		}
		if !strings.Contains(k, "!") && !(i < len(v.spaces) && v.spaces[i] != nil && !v.spaces[i].committed) {
			fail("attempt-after-success", fmt.Sprintf("attempt %d succeeded but attempt %d followed", i, i+1))
		}
	}
	success := len(v.commits)
	if (err == nil) != (success == 1) || success > 1 {
		fail("dishonest-result", fmt.Sprintf("returned err=%v with %d successful commit(s)", err, success))
	}
	if success >= 1 {
		want := fmt.Sprintf("commit-of-ws%d|", v.commits[0])
		if len(v.results) != 1 || !strings.HasPrefix(v.results[0], want) {
			fail("result-not-recorded-once", fmt.Sprintf("Result calls %v after commit of ws%d", v.results, v.commits[0]))
		}
		if v.commits[0] != len(v.spaces)-1 {
			fail("attempt-after-success", "workspace created after the successful commit")
		}
	} else if len(v.results) != 0 {
		fail("result-without-commit", fmt.Sprintf("Result recorded %v but nothing was committed", v.results))
	}
	// Expected-to-stop analysis: if the run stopped early although a retriable failure left budget.
	if success == 0 && len(kinds) > 0 {
		last := kinds[len(kinds)-1]
		if (strings.Contains(last, "!retriable") || strings.Contains(last, "!conflict")) && attempts < maxAttempts {
			// Stopping early is allowed by the statement ("at most"); not a violation. Count it.
			r.Outcome("stopped-before-budget")
		}
	}
	for i, w := range v.spaces {
		if w == nil {
			continue
		}
		if !w.committed && w.destroyed == 0 {
			fail("workspace-leak", fmt.Sprintf("workspace %d of a failed attempt was never destroyed", i))
		}
		if w.staleUse > 0 {
			fail("stale-workspace-use", fmt.Sprintf("workspace %d used after Destroy/commit or after a newer workspace existed", i))
		}
		if _, wrote := w.writes["out/manifest.textproto"]; wrote && !w.readManifestBeforeWrite {
			fail("manifest-not-reread", fmt.Sprintf("attempt %d wrote the manifest without first reading it from its own workspace", i))
		}
	}
	if v.opsAfterEnd > 0 {
		r.Outcome("ops-after-return") // not a clause of the statement; counted only
	}
	if success == 1 {
		// Head must keep every concurrent entry and index our endorsement.
		m := &rpb.VMEndorsementMap{}
		if e := prototext.Unmarshal(v.head["out/manifest.textproto"], m); e != nil {
			r.Outcome("head-manifest-unparseable") // contents of the committed manifest are C13's clause
		} else {
			have := map[string]bool{}
			for _, e := range m.Entries {
				have[e.Path] = true
			}
			for _, p := range v.concur {
				if !have[p] {
					fail("concurrent-entry-dropped", fmt.Sprintf("entry %s committed by a concurrent writer is missing from the committed manifest", p))
				}
			}
			d := sha512.Sum384(f.image)
			found := false
			for _, e := range m.Entries {
				if bytes.Equal(e.Digest, d[:]) {
					found = true
					en := &epb.VMLaunchEndorsement{}
					g := &epb.VMGoldenMeasurement{}
					b, ok := v.head["out/"+e.Path]
					if !ok || proto.Unmarshal(b, en) != nil || proto.Unmarshal(en.SerializedUefiGolden, g) != nil || !bytes.Equal(g.Digest, d[:]) {
						r.Outcome("entry-without-file") // C13's clause
					}
				}
			}
			if !found {
				r.Outcome("our-entry-missing") // C13's clause
			}
		}
	}
	sig := fmt.Sprintf("b=%d %s -> err=%v commits=%d", budget, strings.Join(kinds, ";"), err != nil, success)
	if r.State(sig) {
		r.Sample(map[string]any{"budget": budget, "attempts": kinds, "returned_error": fmt.Sprint(err), "commits": success, "log_len": len(v.log)})
	}
	if c.Trace() != "[all-default]" {
		r.Nontrivial(sig)
	}
	cls := "fail"
	if success == 1 {
		cls = "committed"
	}
	r.Outcome(fmt.Sprintf("%s/attempts=%d", cls, attempts))
	_ = sort.Strings
	return sig + " log=" + strings.Join(v.log, " ")
}
