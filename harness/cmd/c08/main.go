// C08 — firmware analysis is total and resource-bounded on arbitrary images.
//
// Engine E5 + guarded workers: valid baseline images are deviated field by field (every 16-, 32-
// and 64-bit value at every offset of the GUID table, the SEV metadata and the TDVF metadata set to
// a menu of boundary and overflow-triggering values; thorough: pairs inside one structure), every
// truncation of the image, and all tiny images; each case runs on every analysis entry point in a
// journaling worker that measures allocation and is subject to a per-case horizon.
package main

import (
	"context"
	"encoding/binary"
	"fmt"
	"os"
	"strings"
	"time"

	"github.com/google/gce-tcb-verifier/endorse"
	"github.com/google/gce-tcb-verifier/ovmf"
	"github.com/google/gce-tcb-verifier/ovmf/abi"
	"github.com/google/gce-tcb-verifier/sev"
	"github.com/google/gce-tcb-verifier/tdx"
	sgpb "github.com/google/go-sev-guest/proto/sevsnp"

	"verifharness/fx"
	"verifharness/kmfx"
	"verifharness/mc"
	"verifharness/ref"
)

type region struct {
	name     string
	from, to int
}

type base struct {
	name    string
	img     []byte
	regions []region
}

func bases() []base {
	var out []base
	for _, size := range []int{0x3000, 0x1000} {
		sp := fx.ImageSpec{Size: size, Fill: fx.PatternFill, ResetAddr: 0xff0000ff, Sev: fx.DefaultSev(), SevMetaAt: 0x800, TdxMetaAt: 0x400}
		if size >= 0x3000 {
			sp.Tdx = fx.SmallTdx(size)
		} else {
			sp.Tdx = []fx.TdxSection{{DataOffset: 0, DataSize: uint32(size), MemoryBase: 1<<32 - uint64(size), MemorySize: uint64(size), Type: 0, Attributes: 1},
				{MemoryBase: 0x809000, MemorySize: 0x1000, Type: 2}, {MemoryBase: 0x800000, MemorySize: 0x2000, Type: 3}}
		}
		img, lay := fx.Build(sp)
		out = append(out, base{fmt.Sprintf("both-%#x", size), img, []region{
			{"guid-table", lay.TableStart, lay.FooterOff + fx.GuidEntryHdrSize},
			{"sev-metadata", lay.SevMetaOff, lay.SevMetaOff + 16 + 12*len(sp.Sev)},
			{"tdx-metadata", lay.TdxMetaOff, lay.TdxDescOff + 16 + 32*len(sp.Tdx)},
		}})
	}
	return out
}

func values(imgLen, off int, width int, cur uint64) []uint64 {
	l := uint64(imgLen)
	// For 32-bit fields the menu also holds the values that alias the current one after a 32-bit
	// multiplication by a record size (12-byte SEV sections: current + k*2^30; 32-byte TDVF
	// sections: current + k*2^27).
	v := []uint64{0, 1, 15, 16, 17, 21, 22, 23, 0x1000, l - 1, l, l + 1, l - uint64(off), 0x7fffffff, 0x80000000, 0xfffffff0, 0xffffffff, 357913942, 357913941, 134217728, 134217727}
	if width == 2 {
		return []uint64{0, 1, 17, 18, 19, 22, 0x7fff, 0x8000, 0xfffe, 0xffff, l & 0xffff}
	}
	if width == 4 {
		for _, k := range []uint64{1, 2, 4, 8, 16, 24} {
			v = append(v, (cur+k<<27)&0xffffffff)
		}
	}
	if width == 8 {
		v = append(v, 1<<32, 1<<32+0x1000, 1<<40, 1<<56, 1<<63, 1<<63+0x1000, ^uint64(0), ^uint64(0)&^0xfff, 1<<26, 1<<30)
	}
	return v
}

func put(img []byte, off, width int, v uint64) {
	switch width {
	case 2:
		binary.LittleEndian.PutUint16(img[off:], uint16(v))
	case 4:
		binary.LittleEndian.PutUint32(img[off:], uint32(v))
	default:
		binary.LittleEndian.PutUint64(img[off:], v)
	}
}

type dev struct {
	base  int
	desc  string
	apply func(img []byte) []byte
}

// afterIntact: for a deviation whose description ends in this marker the intact base image is
// analysed first, in the same process and right before the deviated one (whatever the analysis
// remembers from a valid image is then in place).
const afterIntact = " [after the intact image]"

func deviations(tier string) []dev {
	bs := bases()
	var out []dev
	for bi, b := range bs {
		bi, b := bi, b
		out = append(out, dev{bi, b.name + " unchanged", func(img []byte) []byte { return img }})
		for _, rg := range b.regions {
			for off := rg.from; off < rg.to; off++ {
				for _, w := range []int{2, 4, 8} {
					if off+w > len(b.img) {
						continue
					}
					var cur uint64
					switch w {
					case 2:
						cur = uint64(binary.LittleEndian.Uint16(b.img[off:]))
					case 4:
						cur = uint64(binary.LittleEndian.Uint32(b.img[off:]))
					default:
						cur = binary.LittleEndian.Uint64(b.img[off:])
					}
					for _, v := range values(len(b.img), off, w, cur) {
						off, w, v := off, w, v
						out = append(out, dev{bi, fmt.Sprintf("%s %s u%d@%#x=%#x", b.name, rg.name, w*8, off, v), func(img []byte) []byte {
							c := append([]byte(nil), img...)
							put(c, off, w, v)
							return c
						}})
					}
				}
			}
		}
		// pairs (length, count) of the two metadata headers: full product of the 32-bit menus, so a
		// count that wraps the size computation can meet the length it then aliases
		for _, h := range []struct {
			name           string
			lenOff, cntOff int
		}{{"sev-header", b.regions[1].from + 4, b.regions[1].from + 12}, {"tdvf-header", b.regions[2].from + 16 + 4, b.regions[2].from + 16 + 12}} {
			h := h
			curLen := uint64(binary.LittleEndian.Uint32(b.img[h.lenOff:]))
			curCnt := uint64(binary.LittleEndian.Uint32(b.img[h.cntOff:]))
			lens := append(values(len(b.img), h.lenOff, 4, curLen), 24, 28, 40, 48, 52, 64)
			for _, lv := range lens {
				for _, cv := range values(len(b.img), h.cntOff, 4, curCnt) {
					lv, cv := lv, cv
					out = append(out, dev{bi, fmt.Sprintf("%s %s length=%#x count=%#x", b.name, h.name, lv, cv), func(img []byte) []byte {
						c := append([]byte(nil), img...)
						put(c, h.lenOff, 4, lv)
						put(c, h.cntOff, 4, cv)
						return c
					}})
				}
			}
		}
		// Front cuts: the tables are found from the END of the image, so dropping leading bytes keeps
		// them intact while every offset and size in them now points outside. Each cut alone and right
		// after the intact image.
		for n := 1; n < len(b.img); n++ {
			if tier != "thorough" && n%0x100 != 0 && n > 64 {
				continue
			}
			n := n
			out = append(out, dev{bi, fmt.Sprintf("%s front-cut@%d", b.name, n), func(img []byte) []byte { return img[n:] }})
			out = append(out, dev{bi, fmt.Sprintf("%s front-cut@%d", b.name, n) + afterIntact, func(img []byte) []byte { return img[n:] }})
		}
		// every truncation (quick: page-level and the last 128 bytes; thorough: every length)
		for n := 0; n <= len(b.img); n++ {
			if tier != "thorough" && n%0x100 != 0 && n < len(b.img)-160 {
				continue
			}
			n := n
			out = append(out, dev{bi, fmt.Sprintf("%s trunc@%d", b.name, n), func(img []byte) []byte { return img[:n] }})
			if n%0x100 == 0 {
				out = append(out, dev{bi, fmt.Sprintf("%s trunc@%d", b.name, n) + afterIntact, func(img []byte) []byte { return img[:n] }})
			}
		}
		if tier == "thorough" {
			// pairs inside the TDVF metadata: every pair of 4-byte-aligned field offsets x 64-bit/32-bit extremes
			rg := b.regions[2]
			ext := []uint64{0, 0xffffffff, 1 << 63, ^uint64(0), 0x1000, 1 << 32}
			for o1 := rg.from + 16; o1 < rg.to; o1 += 4 {
				for o2 := o1 + 4; o2 < rg.to; o2 += 4 {
					for _, v1 := range ext {
						for _, v2 := range ext {
							o1, o2, v1, v2 := o1, o2, v1, v2
							if o2+8 > len(b.img) {
								continue
							}
							out = append(out, dev{bi, fmt.Sprintf("%s tdx-pair u64@%#x=%#x u64@%#x=%#x", b.name, o1, v1, o2, v2), func(img []byte) []byte {
								c := append([]byte(nil), img...)
								put(c, o1, 8, v1)
								put(c, o2, 8, v2)
								return c
							}})
						}
					}
				}
			}
		}
	}
	out = append(out, tdvfLists(tier)...)
	// all tiny images over {00,ff} up to 12 bytes
	for n := 0; n <= 12; n++ {
		for m := 0; m < 1<<n; m++ {
			n, m := n, m
			out = append(out, dev{-1, fmt.Sprintf("tiny len=%d bits=%#x", n, m), func([]byte) []byte {
				c := make([]byte, n)
				for i := range c {
					if m&(1<<i) != 0 {
						c[i] = 0xff
					}
				}
				return c
			}})
		}
	}
	return out
}

// tdvfLists enumerates every list of 1..3 (thorough: 4) firmware-volume sections over a menu whose
// 32-bit sizes contain, for every huge value, the complement that brings a wrapped 32-bit sum back
// to the image length (8 + (2^32-8) + L = L mod 2^32), followed by one hand-off section. Single-
// and two-field deviations cannot build such images: they need three or more coordinated fields.
func tdvfLists(tier string) []dev {
	const L = 0x1000
	type fv struct {
		typ       uint32
		off, size uint32
	}
	offs := []uint32{0, 0x10, L - 8}
	sizes := []uint32{8, 0x10, L, 0xfffffff8, 0xfffffff0}
	maxLen := 3
	if tier == "thorough" {
		offs = append(offs, L, 0xfffffff0)
		sizes = append(sizes, L-0x10, L-8, 0x80000000, 0x80000000+L/2, 0xffffffff-L+1)
		maxLen = 3
	}
	var menu []fv
	for _, t := range []uint32{0, 1} {
		for _, o := range offs {
			for _, z := range sizes {
				menu = append(menu, fv{t, o, z})
			}
		}
	}
	var out []dev
	var rec func(cur []fv)
	rec = func(cur []fv) {
		if len(cur) > 0 {
			list := append([]fv(nil), cur...)
			desc := "4KiB tdvf-list"
			for _, f := range list {
				desc += fmt.Sprintf(" {t%d off=%#x size=%#x}", f.typ, f.off, f.size)
			}
			out = append(out, dev{-1, desc, func([]byte) []byte {
				var secs []fx.TdxSection
				for i, f := range list {
					// guest-physical ranges 8 GiB apart: disjoint even for 4 GiB sizes
					secs = append(secs, fx.TdxSection{DataOffset: f.off, DataSize: f.size, MemoryBase: uint64(i+1) << 33, MemorySize: uint64(f.size), Type: f.typ, Attributes: 1})
				}
				secs = append(secs, fx.TdxSection{MemoryBase: 0x809000, MemorySize: 0x1000, Type: 2})
				img, _ := fx.Build(fx.ImageSpec{Size: L, Fill: fx.PatternFill, ResetAddr: 0xff0000ff, Sev: fx.DefaultSev(), SevMetaAt: 0x800, TdxMetaAt: 0x400, Tdx: secs})
				return img
			}})
		}
		if len(cur) == maxLen {
			return
		}
		for _, f := range menu {
			rec(append(cur, f))
		}
	}
	rec(nil)
	return out
}

func errClass(e error) string {
	if e == nil {
		return "ok"
	}
	s := e.Error()
	if i := strings.IndexAny(s, ":0123456789"); i > 8 {
		s = s[:i]
	}
	if len(s) > 50 {
		s = s[:50]
	}
	return "err " + s
}

var banks = func() []ovmf.GuestPhysicalRegion {
	var out []ovmf.GuestPhysicalRegion
	for _, b := range ref.ShapeBanks("c3-standard-4") {
		out = append(out, ovmf.GuestPhysicalRegion{Start: ovmfAddr(b.Start), Length: b.Length})
	}
	return out
}()

var eps = []struct {
	name string
	f    func(img []byte) string
}{
	{"sev.LaunchDigest(1)", func(img []byte) string {
		_, e := sev.LaunchDigest(&sev.LaunchOptions{Vcpus: 1, Product: sgpb.SevProduct_SEV_PRODUCT_MILAN}, img)
		return errClass(e)
	}},
	{"sev.LaunchDigest(2,genoa)", func(img []byte) string {
		_, e := sev.LaunchDigest(&sev.LaunchOptions{Vcpus: 2, Product: sgpb.SevProduct_SEV_PRODUCT_GENOA}, img)
		return errClass(e)
	}},
	{"sev.UnsignedSnp", func(img []byte) string {
		_, e := sev.UnsignedSnp(img, &sev.SnpEndorsementRequest{LaunchVmsas: 1, ImageID: "87654321-dead-beef-c0de-123456789abc", Product: sgpb.SevProduct_SEV_PRODUCT_MILAN})
		return errClass(e)
	}},
	{"SevData.ExtractFromFirmware", func(img []byte) string {
		d := &ovmf.SevData{SevEs: true, SevSnp: true}
		e := d.ExtractFromFirmware(img)
		if e == nil {
			_, e = d.SnpMetadataSections()
		}
		return errClass(e)
	}},
	{"tdx.MRTD(default)", func(img []byte) string {
		_, e := tdx.MRTD(&tdx.LaunchOptions{}, img)
		return errClass(e)
	}},
	{"tdx.MRTD(measure-all)", func(img []byte) string {
		_, e := tdx.MRTD(&tdx.LaunchOptions{GuestRAMBanks: banks, MeasureAllRegions: true}, img)
		return errClass(e)
	}},
	{"tdx.MRTD(measure-all,early)", func(img []byte) string {
		_, e := tdx.MRTD(&tdx.LaunchOptions{GuestRAMBanks: banks, MeasureAllRegions: true, DisableUnacceptedMemory: true}, img)
		return errClass(e)
	}},
	{"tdx.UnsignedTDX", func(img []byte) string {
		_, e := tdx.UnsignedTDX(img, &tdx.EndorsementRequest{MachineShapes: []string{"c3-standard-4"}, IncludeEarlyAccept: true})
		return errClass(e)
	}},
	{"endorse.GoldenMeasurement(snp+tdx)", func(img []byte) string {
		// the entry point behind the endorse command, with both technologies requested at once
		ctx := endorse.NewContext(context.Background(), &endorse.Context{Image: img, Timestamp: fx.T0, ClSpec: 1,
			SevSnp: &sev.SnpEndorsementRequest{LaunchVmsas: 1, ImageID: "87654321-dead-beef-c0de-123456789abc", Product: sgpb.SevProduct_SEV_PRODUCT_MILAN},
			Tdx:    &tdx.EndorsementRequest{}})
		_, e := endorse.GoldenMeasurement(ctx)
		return errClass(e)
	}},
	{"ovmf.ExtractMaterialGuestPhysicalRegions*", func(img []byte) string {
		_, e1 := ovmf.ExtractMaterialGuestPhysicalRegions(img)
		_, e2 := ovmf.ExtractMaterialGuestPhysicalRegionsTDHOBBug(img, banks)
		_, e3 := ovmf.ExtractMaterialGuestPhysicalRegionsNoUnacceptedMemory(img, banks)
		return errClass(e1) + "|" + errClass(e2) + "|" + errClass(e3)
	}},
}

func build(tier string) (*mc.Guarded, func(i int) (string, string)) {
	bs := bases()
	ds := deviations(tier)
	n := len(ds) * len(eps)
	id := func(i int) (string, string) {
		d, e := ds[i/len(eps)], eps[i%len(eps)]
		return e.name, fmt.Sprintf("ep=%s image=[%s]", e.name, d.desc)
	}
	g := &mc.Guarded{N: n, Horizon: 8 * time.Second, Chunk: 5000, MaxConfirm: 6,
		AllocBound: func(l int) uint64 { return 256<<20 + 64*uint64(l) },
		Case: func(i int) mc.GuardedCase {
			d, e := ds[i/len(eps)], eps[i%len(eps)]
			_, cid := id(i)
			return mc.GuardedCase{ID: cid, Run: func() (string, int) {
				var src []byte
				if d.base >= 0 {
					src = bs[d.base].img
				}
				img := d.apply(src)
				if strings.HasSuffix(d.desc, afterIntact) {
					e.f(src)
				}
				return e.f(img), len(img)
			}}
		}}
	return g, id
}

func ovmfAddr(a uint64) abi.EFIPhysicalAddress { return abi.EFIPhysicalAddress(a) }

func main() {
	mc.GuardedWorkerMain(func() *mc.Guarded { g, _ := build(os.Getenv("VERIF_C08_TIER")); return g })
	r := mc.NewRun("C08")
	defer kmfx.Cleanup()
	tier := r.Tier
	r.Rule("E5 + guarded workers: two valid baseline images (12 KiB and 4 KiB, SNP + TDX metadata); every 16/32/64-bit little-endian value at every byte offset of the GUID table, SEV metadata and TDVF metadata set to a menu of boundary/overflow values {0,1,15..23,0x1000,len-1,len,len+1,remaining,2^31-1,2^31,2^32-16,2^32-1,2^32/12(+-1),2^32/32(+-1)} (+ 64-bit {2^26,2^30,2^32,2^40,2^56,2^63,2^64-1,...}); truncations; all images <=12 bytes over {00,ff}; thorough adds pairs of 64-bit extremes inside the TDVF metadata and every truncation length; x 10 entry points; oracle: no panic, death or 8 s horizon (3x confirmation at 5x), allocation <= 256 MiB + 64 x image length; non-trivial = distinct (entry point, outcome class)")
	g, id := build(tier)
	g.WorkerEnv = []string{"VERIF_C08_TIER=" + tier}
	if r.Replaying() {
		for i := 0; i < g.N; i++ {
			if _, cid := id(i); cid == r.ReplayID {
				cs := g.Case(i)
				r.Case(cid, func() string {
					done := make(chan string, 1)
					go func() {
						var out string
						p, v := mc.Guard(func() { out, _ = cs.Run() })
						if p {
							out = fmt.Sprintf("PANIC %v", v)
						}
						done <- out
					}()
					select {
					case out := <-done:
						r.Eval()
						if strings.HasPrefix(out, "PANIC") {
							r.Violation("panic/replay", cid, out, nil)
						}
						return out
					case <-time.After(40 * time.Second):
						r.Eval()
						r.Violation("horizon/replay", cid, "did not finish within 40 s", nil)
						return "horizon"
					}
				})
				break
			}
		}
		r.Finish()
	}
	suspects := g.RunParent(r, func(res mc.GuardedResult) {
		ep, cid := id(res.Index)
		r.Eval()
		r.Validated()
		switch {
		case strings.HasPrefix(res.Outcome, "PANIC "):
			site := res.Outcome[strings.LastIndex(res.Outcome, " @ ")+3:]
			r.Violation("panic/"+site, cid, fmt.Sprintf("%s panicked: %s", ep, res.Outcome), nil)
		case res.Alloc > g.AllocBound(res.InputLen):
			r.Violation("allocation/"+ep, cid, fmt.Sprintf("%s allocated %d bytes for a %d-byte image", ep, res.Alloc, res.InputLen), nil)
		}
		cls := ep + " => " + res.Outcome
		if len(cls) > 150 {
			cls = cls[:150]
		}
		if r.State(cls) {
			r.Nontrivial(cls)
			r.Sample(map[string]any{"case": cid, "outcome": res.Outcome, "alloc_bytes": res.Alloc, "image_len": res.InputLen})
		}
		r.Outcome(ep)
	})
	for _, s := range suspects {
		ep, cid := id(s.Index)
		r.Violation(s.Why+"/"+ep, cid, fmt.Sprintf("%s: worker %s on this image (confirmed alone, 3 times, 5x horizon)", ep, map[string]string{"death": "died (out of memory or fatal error)", "horizon": "did not finish within the horizon"}[s.Why]), nil)
	}
	r.Set("cases", g.N)
	r.Set("unconfirmed_suspects_beyond_cap", g.UnconfirmedSuspects)
	r.Finish()
}
