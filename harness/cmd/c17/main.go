// C17 — policy derivation never weakens or mutates the caller's policy.
//
// Engine E5: the full product of base policies (every subset of the endorsement-related fields
// set to equal / different / unset values, plus unrelated fields), endorsements (measurement
// tables, CA bundles of 0..3 PEM blocks and a wrong PEM type, SVN), VMSA counts / RAM sizes,
// overwrite and allow-unspecified is run through the real SevPolicy / TdxPolicy and compared with
// a reference derivation.
package main

import (
	"bytes"
	"context"
	"encoding/pem"
	"fmt"
	"google.golang.org/protobuf/reflect/protoreflect"
	"os"
	"path/filepath"
	"verifharness/fx"
	"verifharness/kmfx"
	"verifharness/rpcli"

	"github.com/google/gce-tcb-verifier/cmd/output"
	"github.com/google/gce-tcb-verifier/gcetcbendorsement"
	epb "github.com/google/gce-tcb-verifier/proto/endorsement"
	cpb "github.com/google/go-sev-guest/proto/check"
	tcpb "github.com/google/go-tdx-guest/proto/checkconfig"
	"google.golang.org/protobuf/proto"
	"google.golang.org/protobuf/types/known/wrapperspb"

	"verifharness/att"
	"verifharness/mc"
)

// endorsedPolicy is the production guest policy (SMT and migration agent allowed), which is also
// the default SevPolicy starts from when the caller gives no base.
const endorsedPolicy = uint64(0x70000)

var (
	m1, m2   = att.Meas(0x11), att.Meas(0x22)
	idCert   = []byte("identity-certificate-der")
	authCert = []byte("author-certificate-der")
	thirdCrt = []byte("third-certificate-der")
)

func pemOf(typ string, b []byte) []byte { return pem.EncodeToMemory(&pem.Block{Type: typ, Bytes: b}) }

type endo struct {
	name   string
	golden *epb.VMGoldenMeasurement
}

const plainTable, plainBundle = "1+2", "id+author"

func endorsements() []endo {
	var out []endo
	tables := map[string]map[uint32][]byte{"none": nil, "1": {1: m1}, "1+2": {1: m1, 2: m2}}
	bundles := map[string][]byte{"nobundle": nil, "id": pemOf("CERTIFICATE", idCert), "id+author": append(pemOf("CERTIFICATE", idCert), pemOf("CERTIFICATE", authCert)...),
		"three":     append(append(pemOf("CERTIFICATE", idCert), pemOf("CERTIFICATE", authCert)...), pemOf("CERTIFICATE", thirdCrt)...),
		"wrongtype": pemOf("PUBLIC KEY", idCert), "id+wrongtype": append(pemOf("CERTIFICATE", idCert), pemOf("PUBLIC KEY", authCert)...),
		"garbage": []byte("not pem"), "id+garbage": append(pemOf("CERTIFICATE", idCert), []byte("junk")...)}
	for tn, t := range tables {
		for bn, b := range bundles {
			for _, svn := range []uint32{0, 5} {
				// endorsed guest policy: the production value, none at all, a different one
				// (and, for the plain table/bundle, one that differs from the production value only in a
				// bit beyond the defined policy bits)
				pols := []uint64{endorsedPolicy, 0, 0x30000}
				if tn == plainTable && bn == plainBundle {
					pols = append(pols, endorsedPolicy|1<<21, endorsedPolicy|1<<63)
				}
				for _, pol := range pols {
					out = append(out, endo{fmt.Sprintf("table=%s bundle=%s svn=%d policy=%#x", tn, bn, svn, pol), &epb.VMGoldenMeasurement{
						SevSnp: &epb.VMSevSnp{Svn: svn, Policy: pol, Measurements: t, CaBundle: b}}})
				}
			}
		}
	}
	out = append(out, endo{"no-sevsnp", &epb.VMGoldenMeasurement{}})
	return out
}

type baseSpec struct {
	name string
	p    *cpb.Policy
}

func bases() []baseSpec {
	out := []baseSpec{{"nil", nil}}
	// "differs-high": equal to the production value in the defined low bits, different only at bit 21
	// (a newer ABI's bit), bit 32 or bit 63
	pols := map[string]uint64{"pol-unset": 0, "pol-equal": endorsedPolicy, "pol-differs": 0x30000,
		"pol-differs-bit21": endorsedPolicy | 1<<21, "pol-differs-bit32": endorsedPolicy | 1<<32, "pol-differs-bit63": endorsedPolicy | 1<<63}
	meass := map[string][]byte{"meas-unset": nil, "meas=M1": m1, "meas=M2": m2, "meas-other": att.Meas(0x99)}
	svns := map[string]uint32{"minsvn-unset": 0, "minsvn=5": 5, "minsvn=6": 6}
	keyss := map[string][][]byte{"nokeys": nil, "keys": {[]byte("existing-id")}}
	for pn, pv := range pols {
		for mn, mv := range meass {
			for sn, sv := range svns {
				for kn, kv := range keyss {
					p := &cpb.Policy{Policy: pv, Measurement: mv, MinimumGuestSvn: sv, TrustedIdKeys: kv, TrustedAuthorKeys: kv,
						// unrelated fields
						MinimumVersion: "1.2", ReportData: bytes.Repeat([]byte{7}, 64), Vmpl: wrapperspb.UInt32(2), RequireIdBlock: true, MinimumBuild: 3, HostData: bytes.Repeat([]byte{9}, 32)}
					out = append(out, baseSpec{pn + " " + mn + " " + sn + " " + kn, p})
				}
			}
		}
	}
	return out
}

func unrelated(p *cpb.Policy) *cpb.Policy {
	c := proto.Clone(p).(*cpb.Policy)
	c.Policy, c.Measurement, c.TrustedIdKeys, c.TrustedAuthorKeys = 0, nil, nil, nil
	return c
}

// scribble overwrites, in place, every byte of every bytes field reachable from m.
func scribble(m protoreflect.Message) {
	m.Range(func(fd protoreflect.FieldDescriptor, v protoreflect.Value) bool {
		switch {
		case fd.IsList():
			l := v.List()
			for i := 0; i < l.Len(); i++ {
				if fd.Kind() == protoreflect.BytesKind {
					b := l.Get(i).Bytes()
					for j := range b {
						b[j] ^= 0xff
					}
				} else if fd.Message() != nil {
					scribble(l.Get(i).Message())
				}
			}
		case fd.IsMap():
		case fd.Kind() == protoreflect.BytesKind:
			b := v.Bytes()
			for j := range b {
				b[j] ^= 0xff
			}
		case fd.Message() != nil:
			scribble(v.Message())
		}
		return true
	})
}

func eqKeys(a, b [][]byte) bool {
	if len(a) != len(b) {
		return false
	}
	for i := range a {
		if !bytes.Equal(a[i], b[i]) {
			return false
		}
	}
	return true
}

func main() {
	r := mc.NewRun("C17")
	r.Rule("E5 full product: 149 endorsements (measurement tables {none,{1},{1,2}} x CA bundles {none, 1, 2, 3 PEM blocks, wrong type, trailing garbage} x SVN {0,5} x endorsed guest policy {production, none, different; with bit 21 / 63 set}, no SEV section) x 145 base policies (nil; every combination of guest policy {unset,equal,different,different only at bit 21/32/63}, measurement {unset,M1,M2,other}, minimum guest SVN {unset,<=,>}, trusted keys {none,present}, with unrelated fields set) x VMSA counts {0,1,2,9} x overwrite x allow-unspecified; TDX: base {nil, empty, other quote-body fields, any_mr_td set} x row sets x RAM {0,16,64} x overwrite; every derivation again after one from an endorsement that stops decoding part-way; policy commands run in place over the real file system; non-trivial = distinct successful derivations whose result differs from the base")
	r.Assume("'placed in the result' is read as: a field that differs from the base carries the endorsement's value (with overwrite and a non-zero base guest policy the base's value may stay)")
	ctx := output.NewContext(context.Background(), &output.Options{Quiet: true})
	var jobs []func()
	// An endorsement whose golden measurement carries rows, a CA bundle, an SVN and TDX rows of its
	// own and then stops decoding (a stray byte): every derivation from it fails, and nothing of it
	// may show up in a later derivation.
	pg, _ := proto.Marshal(&epb.VMGoldenMeasurement{
		SevSnp: &epb.VMSevSnp{Svn: 9, Policy: 0x30000, Measurements: map[uint32][]byte{1: att.Meas(0xee), 2: att.Meas(0xee), 9: att.Meas(0xee)}, CaBundle: pemOf("CERTIFICATE", []byte("stray-certificate"))},
		Tdx:    &epb.VMTdx{Measurements: []*epb.VMTdx_Measurement{{RamGib: 0, Mrtd: att.Meas(0xef)}, {RamGib: 16, Mrtd: att.Meas(0xef)}, {RamGib: 64, Mrtd: att.Meas(0xef)}}}})
	poison := &epb.VMLaunchEndorsement{SerializedUefiGolden: append(pg, 0xff)}
	for _, e := range endorsements() {
		payload, _ := proto.Marshal(e.golden)
		end := &epb.VMLaunchEndorsement{SerializedUefiGolden: payload}
		for _, b := range bases() {
			for _, n := range []uint32{0, 1, 2, 9} {
				for _, ow := range []bool{false, true} {
					for _, au := range []bool{false, true} {
						e, b, n, ow, au := e, b, n, ow, au
						id := fmt.Sprintf("sev endorsement=[%s] base=[%s] vmsas=%d overwrite=%v allow_unspecified=%v", e.name, b.name, n, ow, au)
						jobs = append(jobs, func() { r.Case(id, func() string { return sevCase(r, ctx, id, end, e.golden, b.p, n, ow, au, nil) }) })
						idp := id + " after-undecodable-endorsement"
						jobs = append(jobs, func() {
							r.Case(idp, func() string { return sevCase(r, ctx, idp, end, e.golden, b.p, n, ow, au, poison) })
						})
					}
				}
			}
		}
	}
	tdxJobs(r, ctx, &jobs, poison)
	cliInPlace(r)
	r.ParallelFor(len(jobs), func(i int) { jobs[i]() })
	r.Finish()
}

func sevCase(r *mc.Run, ctx context.Context, id string, end *epb.VMLaunchEndorsement, g *epb.VMGoldenMeasurement, base *cpb.Policy, n uint32, ow, au bool, prelude *epb.VMLaunchEndorsement) string {
	var snapshot *cpb.Policy
	if base != nil {
		// every case gets its own copy (cases run in parallel and the code under test may mutate it)
		base = proto.Clone(base).(*cpb.Policy)
		snapshot = proto.Clone(base).(*cpb.Policy)
	}
	var got *cpb.Policy
	var err error
	pan, val := mc.Guard(func() {
		if prelude != nil {
			// history: another derivation first, in the same goroutine, from an endorsement whose
			// golden measurement stops decoding after rows, bundle and SVN of its own
			gcetcbendorsement.SevPolicy(ctx, prelude, &gcetcbendorsement.SevPolicyOptions{LaunchVmsas: n, Overwrite: ow, AllowUnspecifiedVmsas: au})
		}
		got, err = gcetcbendorsement.SevPolicy(ctx, end, &gcetcbendorsement.SevPolicyOptions{Base: base, LaunchVmsas: n, Overwrite: ow, AllowUnspecifiedVmsas: au})
	})
	r.Eval()
	viol := func(what, msg string) { r.Violation("sev/"+what, id, msg, map[string]any{"error": fmt.Sprint(err)}) }
	if pan {
		viol("panic", fmt.Sprintf("SevPolicy panicked: %v", val))
		return "panic"
	}
	r.Validated()
	if base != nil && !proto.Equal(base, snapshot) {
		viol("base-mutated", "the caller's base policy was modified")
	}
	if err != nil {
		// A failing derivation is always allowed by the statement; plain cases that fail are only
		// counted, so that a run in which nothing succeeds is visible in the evidence.
		snp := g.SevSnp
		plain := snp != nil && snp.Policy == endorsedPolicy && len(snp.CaBundle) == 0 && base == nil && (n == 0 && au || n != 0 && snp.Measurements[n] != nil)
		if plain {
			r.Outcome("plain-derivation-refused")
		}
		r.Outcome("error")
		return "error: " + err.Error()
	}
	snp := g.SevSnp
	if snp == nil {
		viol("result-without-sevsnp", "a policy was derived from an endorsement without SEV-SNP data")
		return "ok?"
	}
	if base != nil && got == base {
		viol("result-aliases-base", "the returned policy is the caller's base object")
	}
	eff := base
	if eff == nil {
		eff = &cpb.Policy{Policy: 0x70000, MinimumVersion: "0.0"} // documented default when no base is given
	}
	// Without overwrite every set base value survives.
	if !ow && base != nil {
		if base.Policy != 0 && got.Policy != base.Policy {
			viol("guest-policy-overwritten", fmt.Sprintf("base guest policy %#x became %#x without overwrite", base.Policy, got.Policy))
		}
		if len(base.Measurement) != 0 && !bytes.Equal(got.Measurement, base.Measurement) {
			viol("measurement-overwritten", "base measurement was replaced without overwrite")
		}
		if base.MinimumGuestSvn != 0 && (got.MinimumGuestSvn != base.MinimumGuestSvn || snp.Svn < base.MinimumGuestSvn) {
			viol("minimum-svn-weakened", fmt.Sprintf("base minimum guest SVN %d vs endorsed SVN %d accepted / changed to %d", base.MinimumGuestSvn, snp.Svn, got.MinimumGuestSvn))
		}
	}
	// Values placed in the result are the endorsement's.
	if n != 0 {
		// a set base measurement may survive (without overwrite it must); anything else in the
		// result has to be the measurement endorsed for the named count
		keptBase := len(eff.Measurement) != 0 && bytes.Equal(got.Measurement, eff.Measurement)
		if !keptBase && (!bytes.Equal(got.Measurement, snp.Measurements[n]) || len(snp.Measurements[n]) == 0) {
			viol("measurement-not-endorsed", fmt.Sprintf("result measurement is neither the base's nor the one endorsed for %d VMSAs", n))
		}
	} else {
		if !au {
			// not a clause of this statement (the named-configuration rule is C02's): counted only
			r.Outcome("derived-without-vmsa-count-and-without-allow-unspecified")
		}
		if !bytes.Equal(got.Measurement, eff.Measurement) {
			viol("measurement-changed-without-count", "measurement changed although no VMSA count was named")
		}
	}
	if got.Policy != eff.Policy && got.Policy != snp.Policy {
		viol("guest-policy-not-endorsed", fmt.Sprintf("result guest policy %#x is neither the base's nor the endorsement's", got.Policy))
	}
	if eff.Policy == 0 && base != nil && got.Policy != snp.Policy {
		viol("guest-policy-not-set", "an unset base guest policy was not filled from the endorsement")
	}
	// Trusted keys: base keys first, then exactly the bundle's identity / author certificates.
	var ids, auths [][]byte
	rest := snp.CaBundle
	if blk, more := pem.Decode(rest); blk != nil {
		ids = append(ids, blk.Bytes)
		if blk2, _ := pem.Decode(more); blk2 != nil {
			auths = append(auths, blk2.Bytes)
		}
	}
	if !eqKeys(got.TrustedIdKeys, append(append([][]byte(nil), eff.TrustedIdKeys...), ids...)) {
		viol("trusted-id-keys-wrong", "trusted identity keys are not the base's followed by the endorsement's identity certificate")
	}
	if !eqKeys(got.TrustedAuthorKeys, append(append([][]byte(nil), eff.TrustedAuthorKeys...), auths...)) {
		viol("trusted-author-keys-wrong", "trusted author keys are not the base's followed by the endorsement's author certificate")
	}
	if base != nil && !proto.Equal(unrelated(got), unrelated(base)) {
		viol("unrelated-field-changed", "a base field unrelated to the endorsement differs in the result")
	}
	if base == nil || !proto.Equal(got, base) {
		r.Nontrivial(id)
	}
	// "returns a new policy": nothing in the result may share memory with the base. Scribble over
	// every byte slice of the result and look at the base again.
	if base != nil {
		scribble(got.ProtoReflect())
		if !proto.Equal(base, snapshot) {
			viol("result-shares-memory-with-base", "writing into the returned policy changed the caller's base policy")
		}
	}
	r.Outcome("ok")
	if r.State(fmt.Sprintf("sev ok n=%d ow=%v ids=%d auths=%d basenil=%v", n, ow, len(ids), len(auths), base == nil)) {
		r.Sample(map[string]any{"case": id, "result_policy": got.Policy, "result_measurement_len": len(got.Measurement), "trusted_id_keys": len(got.TrustedIdKeys)})
	}
	return "ok"
}

func tdxJobs(r *mc.Run, ctx context.Context, jobs *[]func(), poison *epb.VMLaunchEndorsement) {
	rowsets := map[string][]*epb.VMTdx_Measurement{
		"rows=default":       {{RamGib: 0, Mrtd: att.Meas(0xa0)}},
		"rows=16,16e,32,def": {{RamGib: 16, Mrtd: att.Meas(0xa1)}, {RamGib: 16, EarlyAccept: true, Mrtd: att.Meas(0xa2)}, {RamGib: 32, Mrtd: att.Meas(0xa3)}, {RamGib: 0, Mrtd: att.Meas(0xa0)}},
		"rows=none":          nil,
	}
	basesT := map[string]*tcpb.Policy{
		"nil":           nil,
		"empty":         {},
		"header-only":   {HeaderPolicy: &tcpb.HeaderPolicy{MinimumQeSvn: 3, QeVendorId: bytes.Repeat([]byte{1}, 16)}},
		"body-other":    {TdQuoteBodyPolicy: &tcpb.TDQuoteBodyPolicy{MinimumTeeTcbSvn: bytes.Repeat([]byte{2}, 16), MrSeam: bytes.Repeat([]byte{3}, 48), ReportData: bytes.Repeat([]byte{4}, 64)}, HeaderPolicy: &tcpb.HeaderPolicy{MinimumQeSvn: 1}},
		"any_mr_td set": {TdQuoteBodyPolicy: &tcpb.TDQuoteBodyPolicy{AnyMrTd: [][]byte{att.Meas(0xb0)}, MrSeam: bytes.Repeat([]byte{3}, 48)}},
	}
	for rn, rows := range rowsets {
		g := &epb.VMGoldenMeasurement{Tdx: &epb.VMTdx{Measurements: rows}}
		payload, _ := proto.Marshal(g)
		end := &epb.VMLaunchEndorsement{SerializedUefiGolden: payload}
		for bn, base := range basesT {
			for _, ram := range []int{0, 16, 64} {
				for _, ow := range []bool{false, true} {
					for _, after := range []bool{false, true} {
						rn, rows, bn, base, ram, ow, after := rn, rows, bn, base, ram, ow, after
						id := fmt.Sprintf("tdx %s base=[%s] ram=%d overwrite=%v", rn, bn, ram, ow)
						if after {
							id += " after-undecodable-endorsement"
						}
						*jobs = append(*jobs, func() {
							r.Case(id, func() string {
								var snapshot *tcpb.Policy
								if base != nil {
									base = proto.Clone(base).(*tcpb.Policy)
									snapshot = proto.Clone(base).(*tcpb.Policy)
								}
								var got *tcpb.Policy
								var err error
								pan, val := mc.Guard(func() {
									if after {
										gcetcbendorsement.TdxPolicy(ctx, poison, &gcetcbendorsement.TdxPolicyOptions{RAMGiB: ram, Overwrite: ow})
										gcetcbendorsement.SevPolicy(ctx, poison, &gcetcbendorsement.SevPolicyOptions{AllowUnspecifiedVmsas: true})
									}
									got, err = gcetcbendorsement.TdxPolicy(ctx, end, &gcetcbendorsement.TdxPolicyOptions{Base: base, RAMGiB: ram, Overwrite: ow})
								})
								r.Eval()
								viol := func(what, msg string) { r.Violation("tdx/"+what, id, msg, map[string]any{"error": fmt.Sprint(err)}) }
								if pan {
									viol("panic", fmt.Sprintf("TdxPolicy panicked: %v", val))
									return "panic"
								}
								r.Validated()
								if base != nil && !proto.Equal(base, snapshot) {
									viol("base-mutated", "the caller's base policy was modified")
								}
								var want [][]byte
								for _, m := range rows {
									if ram == 0 || int(m.RamGib) == ram {
										want = append(want, m.Mrtd)
									}
								}
								if err != nil {
									if len(want) > 0 && (base.GetTdQuoteBodyPolicy().GetAnyMrTd() == nil || ow) {
										r.Outcome("plain-derivation-refused") // a failing derivation is always allowed; counted only
									}
									r.Outcome("error")
									return "error"
								}
								if base != nil && got == base {
									viol("result-aliases-base", "the returned policy is the caller's base object")
								}
								baseList := base.GetTdQuoteBodyPolicy().GetAnyMrTd()
								gotList := got.GetTdQuoteBodyPolicy().GetAnyMrTd()
								keptBase := baseList != nil && eqKeys(gotList, baseList)
								if !ow && baseList != nil && !keptBase {
									viol("allow-list-overwritten", "an existing MRTD allow-list was replaced without overwrite")
								}
								if !keptBase && (!eqKeys(gotList, want) || len(want) == 0) {
									viol("allow-list-not-endorsed", "the MRTD allow-list is neither the base's nor exactly the endorsement's rows for the RAM size")
								}
								strip := func(p *tcpb.Policy) *tcpb.Policy {
									c := &tcpb.Policy{}
									if p != nil {
										c = proto.Clone(p).(*tcpb.Policy)
									}
									if c.TdQuoteBodyPolicy == nil {
										c.TdQuoteBodyPolicy = &tcpb.TDQuoteBodyPolicy{}
									}
									c.TdQuoteBodyPolicy.AnyMrTd = nil
									return c
								}
								if !proto.Equal(strip(got), strip(base)) {
									viol("unrelated-field-changed", "a base field unrelated to the endorsement differs in the result")
								}
								if base != nil {
									scribble(got.ProtoReflect())
									if !proto.Equal(base, snapshot) {
										viol("result-shares-memory-with-base", "writing into the returned policy changed the caller's base policy")
									}
								}
								r.Nontrivial(id)
								r.Outcome("ok")
								if r.State(fmt.Sprintf("tdx ok rows=%d ow=%v base=%s", len(want), ow, bn)) {
									r.Sample(map[string]any{"case": id, "allow_list_entries": len(want)})
								}
								return "ok"
							})
						})
					}
				}
			}
		}
	}
}

// cliInPlace runs the policy sub-commands over the real file system the way an in-place refresh does
// (--out names the file given as --base): whatever the derivation decides, a base policy that was
// not to be overwritten is still there afterwards, byte for byte, when the command fails; and when it
// succeeds the file holds a policy in which every value the base had set survives.
func cliInPlace(r *mc.Run) {
	if !rpcli.Available {
		r.Degraded("in-process CLI (overlay export of the backend key did not build)")
		return
	}
	dir := filepath.Join(kmfx.ScratchRoot(), "c17-cli")
	os.MkdirAll(dir, 0o755)
	golden := &epb.VMGoldenMeasurement{
		SevSnp: &epb.VMSevSnp{Svn: 5, Policy: endorsedPolicy, Measurements: map[uint32][]byte{1: m1, 2: m2}},
		Tdx:    &epb.VMTdx{Measurements: []*epb.VMTdx_Measurement{{RamGib: 0, Mrtd: att.Meas(0xa0)}, {RamGib: 16, Mrtd: att.Meas(0xa1)}}}}
	payload, _ := proto.Marshal(golden)
	endBytes, _ := proto.Marshal(&epb.VMLaunchEndorsement{SerializedUefiGolden: payload})
	endPath := filepath.Join(dir, "endorsement.binarypb")
	os.WriteFile(endPath, endBytes, 0o644)
	sevBases := map[string]*cpb.Policy{
		"conflicting-measurement":  {Policy: endorsedPolicy, Measurement: att.Meas(0x99), MinimumVersion: "1.2"},
		"conflicting-guest-policy": {Policy: 0x30000, MinimumVersion: "1.2"},
		"compatible":               {Policy: endorsedPolicy, MinimumVersion: "1.2", ReportData: bytes.Repeat([]byte{7}, 64)},
	}
	n := 0
	for bn, base := range sevBases {
		for _, ow := range []bool{false, true} {
			n++
			bn, base, ow := bn, base, ow
			id := fmt.Sprintf("cli sev policy in-place base=[%s] overwrite=%v", bn, ow)
			r.Case(id, func() string {
				bp := filepath.Join(dir, fmt.Sprintf("sev-base-%d.binarypb", n))
				before, _ := proto.Marshal(base)
				os.WriteFile(bp, before, 0o644)
				args := []string{"sev", "--base=" + bp, "--launch_vmsas=1", "policy", endPath, "--out=" + bp, "--outform=bin"}
				if ow {
					args = append([]string{"sev", "--overwrite"}, args[1:]...)
				}
				res := rpcli.RunOS(fx.T0, nil, args...)
				r.Eval()
				r.Validated()
				after, _ := os.ReadFile(bp)
				if res.Panicked != nil {
					r.Violation("cli/panic", id, fmt.Sprintf("sev policy panicked: %v", res.Panicked), nil)
					return "panic"
				}
				if res.Err != nil {
					if !bytes.Equal(after, before) {
						r.Violation("cli/base-file-changed-by-a-failed-derivation", id, fmt.Sprintf("sev policy failed (%v) and the caller's base policy file went from %d to %d bytes", res.Err, len(before), len(after)), nil)
					}
					r.Outcome("cli:refused")
					return "refused"
				}
				got := &cpb.Policy{}
				if err := proto.Unmarshal(after, got); err != nil {
					r.Violation("cli/result-unparseable", id, "the policy written in place does not parse: "+err.Error(), nil)
					return "unparseable"
				}
				if !ow && (base.Policy != 0 && got.Policy != base.Policy || len(base.Measurement) != 0 && !bytes.Equal(got.Measurement, base.Measurement)) {
					r.Violation("cli/base-value-replaced-without-overwrite", id, "a value set in the base policy was replaced without --overwrite", nil)
				}
				r.Nontrivial(id)
				r.Outcome("cli:derived")
				return "derived"
			})
		}
	}
	tdxBases := map[string]*tcpb.Policy{
		"allow-list-set": {TdQuoteBodyPolicy: &tcpb.TDQuoteBodyPolicy{AnyMrTd: [][]byte{att.Meas(0xb0)}}},
		"other-fields":   {HeaderPolicy: &tcpb.HeaderPolicy{MinimumQeSvn: 3}},
	}
	for bn, base := range tdxBases {
		for _, ow := range []bool{false, true} {
			n++
			bn, base, ow := bn, base, ow
			id := fmt.Sprintf("cli tdx policy in-place base=[%s] overwrite=%v", bn, ow)
			r.Case(id, func() string {
				bp := filepath.Join(dir, fmt.Sprintf("tdx-base-%d.binarypb", n))
				before, _ := proto.Marshal(base)
				os.WriteFile(bp, before, 0o644)
				args := []string{"tdx", "--base=" + bp, "policy", endPath, "--out=" + bp, "--outform=bin"}
				if ow {
					args = append([]string{"tdx", "--overwrite"}, args[1:]...)
				}
				res := rpcli.RunOS(fx.T0, nil, args...)
				r.Eval()
				r.Validated()
				after, _ := os.ReadFile(bp)
				if res.Panicked != nil {
					r.Violation("cli/panic", id, fmt.Sprintf("tdx policy panicked: %v", res.Panicked), nil)
					return "panic"
				}
				if res.Err != nil {
					if !bytes.Equal(after, before) {
						r.Violation("cli/base-file-changed-by-a-failed-derivation", id, fmt.Sprintf("tdx policy failed (%v) and the caller's base policy file went from %d to %d bytes", res.Err, len(before), len(after)), nil)
					}
					r.Outcome("cli:refused")
					return "refused"
				}
				got := &tcpb.Policy{}
				if err := proto.Unmarshal(after, got); err != nil {
					r.Violation("cli/result-unparseable", id, "the policy written in place does not parse: "+err.Error(), nil)
					return "unparseable"
				}
				if bl := base.GetTdQuoteBodyPolicy().GetAnyMrTd(); !ow && bl != nil && !eqKeys(got.GetTdQuoteBodyPolicy().GetAnyMrTd(), bl) {
					r.Violation("cli/base-value-replaced-without-overwrite", id, "the MRTD allow-list of the base policy was replaced without --overwrite", nil)
				}
				r.Nontrivial(id)
				r.Outcome("cli:derived")
				return "derived"
			})
		}
	}
}
