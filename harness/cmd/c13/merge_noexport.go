//go:build noexport

package main

import "verifharness/mc"

func mergeSubcheck(r *mc.Run) {
	r.Degraded("merge-function sub-check (overlay export of endorse.addEndorsementEntry did not build)")
}
