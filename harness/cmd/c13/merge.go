//go:build !noexport

package main

import (
	"context"
	"fmt"
	"sort"
	"strings"

	"github.com/google/gce-tcb-verifier/cmd/output"
	"github.com/google/gce-tcb-verifier/endorse"
	rpb "github.com/google/gce-tcb-verifier/proto/releases"

	"verifharness/mc"
)

// mergeSubcheck explores endorse.addEndorsementEntry (overlay export) against a two-map reference
// for every well-formed manifest of <=3 entries over 3 paths x 3 digests and every new entry.
func mergeSubcheck(r *mc.Run) {
	paths := []string{"p0", "p1", "p2"}
	digs := [][]byte{{0xd0}, {0xd1}, {0xd2}}
	ctx := output.NewContext(context.Background(), &output.Options{Quiet: true})
	type ent struct{ p, d int }
	var manifests [][]ent
	var rec func(cur []ent)
	rec = func(cur []ent) {
		manifests = append(manifests, append([]ent(nil), cur...))
		if len(cur) == 3 {
			return
		}
		for p := 0; p < 3; p++ {
			for d := 0; d < 3; d++ {
				rec(append(cur, ent{p, d}))
			}
		}
	}
	rec(nil)
	n := 0
	for _, m := range manifests {
		wellFormed := true
		ps, ds := map[int]bool{}, map[int]bool{}
		for _, e := range m {
			if ps[e.p] || ds[e.d] {
				wellFormed = false
			}
			ps[e.p], ds[e.d] = true, true
		}
		for np := 0; np < 3; np++ {
			for nd := 0; nd < 3; nd++ {
				var entries []*rpb.VMEndorsementMap_Entry
				for _, e := range m {
					entries = append(entries, &rpb.VMEndorsementMap_Entry{Path: paths[e.p], Digest: digs[e.d]})
				}
				id := fmt.Sprintf("merge manifest=%v new=(%d,%d)", m, np, nd)
				var got []*rpb.VMEndorsementMap_Entry
				pan, val := mc.Guard(func() {
					got = endorse.VerifAddEndorsementEntry(ctx, entries, &rpb.VMEndorsementMap_Entry{Path: paths[np], Digest: digs[nd]})
				})
				n++
				r.Eval()
				if pan {
					r.Violation("merge/panic", id, fmt.Sprintf("addEndorsementEntry panicked: %v", val), nil)
					continue
				}
				if !wellFormed {
					continue // the statement speaks about manifests the tool itself produced
				}
				r.Validated()
				want := map[string]string{}
				for _, e := range m {
					if e.p != np && e.d != nd {
						want[paths[e.p]] = string(digs[e.d])
					}
				}
				want[paths[np]] = string(digs[nd])
				have := map[string]string{}
				dup := false
				seenD := map[string]bool{}
				for _, e := range got {
					if _, ok := have[e.Path]; ok || seenD[string(e.Digest)] {
						dup = true
					}
					have[e.Path] = string(e.Digest)
					seenD[string(e.Digest)] = true
				}
				if dup || fmt.Sprint(sortedKV(have)) != fmt.Sprint(sortedKV(want)) {
					r.Violation("merge/differs-from-reference", id, fmt.Sprintf("addEndorsementEntry(%v, (%d,%d)) = %v, reference %v", m, np, nd, sortedKV(have), sortedKV(want)), nil)
				}
				if len(m) >= 2 {
					r.Nontrivial(id)
				}
			}
		}
	}
	r.Set("merge_subcheck_cases", n)
}

func sortedKV(m map[string]string) []string {
	var out []string
	for k, v := range m {
		out = append(out, fmt.Sprintf("%s=%x", k, v))
	}
	sort.Strings(out)
	return []string{strings.Join(out, ",")}
}
