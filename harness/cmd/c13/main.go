// C13 — the endorsement manifest stays a faithful index over every endorse history.
//
// Engine E3: BFS to closure over sequences of real endorse.VirtualFirmware runs drawn from
// 3 images x 3 candidate names x overwrite x snapshot, over an in-memory version-control double and
// over localnonvcs on disk; the five clauses of the statement are evaluated in every state and on
// every transition. Sub-check: the unexported merge function against a two-map reference for all
// manifests of <=3 entries (overlay export; degraded if it does not build).
package main

import (
	"bytes"
	"context"
	"crypto/sha512"
	"encoding/hex"
	"fmt"
	"os"
	"path/filepath"
	"sort"
	"strings"
	"time"

	"github.com/google/gce-tcb-verifier/cmd/output"
	"github.com/google/gce-tcb-verifier/endorse"
	epb "github.com/google/gce-tcb-verifier/proto/endorsement"
	rpb "github.com/google/gce-tcb-verifier/proto/releases"
	"github.com/google/gce-tcb-verifier/sev"
	"github.com/google/gce-tcb-verifier/testing/nonprod/localnonvcs"
	"github.com/google/gce-tcb-verifier/timeproto"
	sgpb "github.com/google/go-sev-guest/proto/sevsnp"
	"google.golang.org/protobuf/encoding/prototext"
	"google.golang.org/protobuf/proto"

	"verifharness/fx"
	"verifharness/kmfx"
	"verifharness/mc"
)

// memVCS is a fault-free in-memory version-control double (whole-tree snapshots per workspace).
type memVCS struct{ files map[string][]byte }
type memOps struct {
	v      *memVCS
	writes map[string][]byte
}

var errNF = os.ErrNotExist

func (v *memVCS) GetChangeOps(context.Context) (endorse.ChangeOps, error) {
	return &memOps{v: v, writes: map[string][]byte{}}, nil
}
func (v *memVCS) RetriableError(error) bool                      { return false }
func (v *memVCS) Result(any, string)                             {}
func (v *memVCS) ReleasePath(_ context.Context, p string) string { return p }
func (o *memOps) WriteOrCreateFiles(_ context.Context, fs ...*endorse.File) error {
	for _, f := range fs {
		o.writes[f.Path] = append([]byte(nil), f.Contents...)
	}
	return nil
}
func (o *memOps) ReadFile(_ context.Context, p string) ([]byte, error) {
	if b, ok := o.writes[p]; ok {
		return b, nil
	}
	if b, ok := o.v.files[p]; ok {
		return b, nil
	}
	return nil, errNF
}
func (o *memOps) SetBinaryWritable(context.Context, string) error { return nil }
func (o *memOps) IsNotFound(err error) bool                       { return os.IsNotExist(err) }
func (o *memOps) Destroy()                                        {}
func (o *memOps) TryCommit(context.Context) (any, error) {
	for k, b := range o.writes {
		o.v.files[k] = b
	}
	return "commit", nil
}

// tree is the state: files visible through the version-control abstraction.
type tree struct {
	kind  string // mem | disk
	files map[string][]byte
	dir   string
	step  int
}

func (t *tree) clone() *tree {
	c := &tree{kind: t.kind, files: map[string][]byte{}, step: t.step}
	for k, v := range t.read() {
		c.files[k] = v
	}
	if t.kind == "disk" {
		c.dir = filepath.Join(kmfx.ScratchRoot(), fmt.Sprintf("c13-%d-%p", t.step, c))
		os.MkdirAll(c.dir, 0o755)
		for k, v := range c.files {
			p := filepath.Join(c.dir, k)
			os.MkdirAll(filepath.Dir(p), 0o755)
			os.WriteFile(p, v, 0o644)
		}
	}
	return c
}

func (t *tree) read() map[string][]byte {
	if t.kind == "mem" {
		return t.files
	}
	out := map[string][]byte{}
	if t.dir == "" {
		return out
	}
	filepath.Walk(t.dir, func(p string, info os.FileInfo, err error) error {
		if err == nil && !info.IsDir() {
			rel, _ := filepath.Rel(t.dir, p)
			b, _ := os.ReadFile(p)
			out[rel] = b
		}
		return nil
	})
	return out
}

func (t *tree) drop() {
	if t.dir != "" {
		os.RemoveAll(t.dir)
	}
}

type act struct {
	img       int
	cand      string
	overwrite bool
	snapshot  bool
}

func (a act) String() string {
	return fmt.Sprintf("img=%c cand=%q overwrite=%v snapshot=%v", 'A'+a.img, a.cand, a.overwrite, a.snapshot)
}

var images [][]byte

func digestOf(img []byte) []byte { d := sha512.Sum384(img); return d[:] }

// signedDigest returns the firmware digest inside a serialized endorsement, or nil.
func signedDigest(b []byte) ([]byte, time.Time) {
	e := &epb.VMLaunchEndorsement{}
	g := &epb.VMGoldenMeasurement{}
	if proto.Unmarshal(b, e) != nil || proto.Unmarshal(e.SerializedUefiGolden, g) != nil || len(g.Digest) == 0 {
		return nil, time.Time{}
	}
	return g.Digest, timeproto.From(g.Timestamp)
}

func imgName(d []byte) string {
	for i, im := range images {
		if bytes.Equal(digestOf(im), d) {
			return string(rune('A' + i))
		}
	}
	return "?"
}

// canon: manifest entries (path -> image), each endorsement-like file -> signed image.
func canon(files map[string][]byte) string {
	var parts []string
	if b, ok := files["out/manifest.textproto"]; ok {
		m := &rpb.VMEndorsementMap{}
		if err := prototext.Unmarshal(b, m); err != nil {
			parts = append(parts, "manifest:UNPARSEABLE")
		} else {
			var es []string
			for _, e := range m.Entries {
				es = append(es, e.Path+"="+imgName(e.Digest))
			}
			sort.Strings(es)
			parts = append(parts, "manifest:"+strings.Join(es, ","))
		}
	}
	var fs []string
	for k, b := range files {
		if strings.HasSuffix(k, ".binarypb") || strings.HasSuffix(k, ".signed") {
			d, _ := signedDigest(b)
			fs = append(fs, k+"=>"+imgName(d))
		} else if k != "out/manifest.textproto" {
			fs = append(fs, k)
		}
	}
	sort.Strings(fs)
	return strings.Join(append(parts, fs...), " | ")
}

func stateProblems(files map[string][]byte) [][2]string {
	var out [][2]string
	b, ok := files["out/manifest.textproto"]
	if !ok {
		return nil
	}
	m := &rpb.VMEndorsementMap{}
	if err := prototext.Unmarshal(b, m); err != nil {
		return [][2]string{{"manifest-unparseable", err.Error()}}
	}
	paths, digs := map[string]int{}, map[string]int{}
	for _, e := range m.Entries {
		paths[e.Path]++
		digs[hex.EncodeToString(e.Digest)]++
		fb, ok := files["out/"+e.Path]
		if !ok {
			out = append(out, [2]string{"entry-without-file", fmt.Sprintf("manifest entry %s names no existing endorsement file", e.Path)})
			continue
		}
		d, _ := signedDigest(fb)
		if !bytes.Equal(d, e.Digest) {
			out = append(out, [2]string{"entry-digest-differs-from-signed", fmt.Sprintf("entry %s lists image %s but the file endorses image %s", e.Path, imgName(e.Digest), imgName(d))})
		}
	}
	for p, n := range paths {
		if n > 1 {
			out = append(out, [2]string{"duplicate-path", fmt.Sprintf("path %s listed %d times", p, n)})
		}
	}
	for d, n := range digs {
		if n > 1 {
			out = append(out, [2]string{"duplicate-digest", fmt.Sprintf("digest %s… listed %d times", d[:8], n)})
		}
	}
	return out
}

func main() {
	r := mc.NewRun("C13")
	r.Rule("E3 BFS to closure over endorse runs {image A,B,C} x {candidate '', x, y} x {overwrite} x {snapshot} through the real endorse.VirtualFirmware, over an in-memory VCS double and over localnonvcs on disk; canonical state = sorted manifest entries (path -> image) and every endorsement file -> signed image; non-trivial = distinct reached states with at least two manifest entries or a replaced entry; plus the merge-function sub-check over all manifests of <=3 entries, plus one long line (300 distinct images into one manifest, then 7 re-endorsements)")
	defer kmfx.Cleanup()
	auth, err := fx.NewAuthority(fx.T0, "c13")
	if err != nil {
		mc.Fatal("%v", err)
	}
	for i := 0; i < 3; i++ {
		i := i
		img, _ := fx.Build(fx.ImageSpec{Size: 0x3000, Fill: func(b []byte) {
			for j := range b {
				b[j] = byte(j*(i+3)) ^ byte(i)
			}
		}, ResetAddr: 0xff0000ff, Sev: fx.DefaultSev(), Tdx: fx.SmallTdx(0x3000), SevMetaAt: 0x800, TdxMetaAt: 0x400})
		images = append(images, img)
	}
	var acts []act
	for img := 0; img < 3; img++ {
		for _, cand := range []string{"", "x", "y"} {
			for _, ow := range []bool{false, true} {
				for _, snap := range []bool{false, true} {
					acts = append(acts, act{img, cand, ow, snap})
				}
			}
		}
	}
	actNames := make([]string, len(acts))
	byName := map[string]act{}
	for i, a := range acts {
		actNames[i] = a.String()
		byName[a.String()] = a
	}
	kinds := []string{"mem", "disk"}
	for _, kind := range kinds {
		kind := kind
		apply := func(n *mc.Node, an string) any {
			a := byName[an]
			prev := n.State.(*tree)
			t := prev.clone()
			t.step = n.Depth + 1
			before := prev.read()
			ts := fx.T0.Add(time.Duration(t.step) * time.Hour)
			ec := &endorse.Context{
				SevSnp:        &sev.SnpEndorsementRequest{LaunchVmsas: 1, ImageID: "87654321-dead-beef-c0de-123456789abc", Product: sgpb.SevProduct_SEV_PRODUCT_MILAN},
				Image:         images[a.img],
				ClSpec:        42,
				Timestamp:     ts,
				CandidateName: a.cand,
				OutDir:        "out",
				ImageName:     "fw.fd",
			}
			if a.snapshot {
				ec.SnapshotDir = "snap"
			}
			if kind == "mem" {
				ec.VCS = &memVCS{files: t.files}
			} else {
				if t.dir == "" {
					t.dir = filepath.Join(kmfx.ScratchRoot(), fmt.Sprintf("c13-root-%p", t))
					os.MkdirAll(t.dir, 0o755)
				}
				ec.VCS = &localnonvcs.T{Root: t.dir}
			}
			ctx := output.NewContext(auth.Ctx(), &output.Options{Quiet: true, Overwrite: a.overwrite})
			ctx = endorse.NewContext(ctx, ec)
			var runErr error
			pan, val := mc.Guard(func() { runErr = endorse.VirtualFirmware(ctx) })
			after := t.read()
			r.Eval()
			id := fmt.Sprintf("vcs=%s history=%s", kind, strings.Join(append(append([]string(nil), n.Hist...), an), " ; "))
			viol := func(what, msg string) {
				r.Violation(kind+"/"+what, id, msg, map[string]any{"run_error": fmt.Sprint(runErr), "state": canon(after)})
			}
			if pan {
				viol("panic", fmt.Sprintf("endorse run panicked: %v", val))
			}
			for _, p := range stateProblems(after) {
				viol(p[0], p[1])
			}
			// Without overwrite permission an existing endorsement file is never replaced.
			if !a.overwrite {
				for k, b := range before {
					if !(strings.HasSuffix(k, ".binarypb") || strings.HasSuffix(k, ".signed")) {
						continue
					}
					if nb, ok := after[k]; !ok || !bytes.Equal(nb, b) {
						what := "endorsement-file-replaced-without-overwrite"
						if strings.HasSuffix(k, ".signed") {
							what = "snapshot-endorsement-replaced-without-overwrite"
						}
						viol(what, fmt.Sprintf("existing endorsement file %s was replaced by a run without overwrite permission", k))
					}
				}
			}
			// The digest of the latest successful (manifest-mode) run maps to the file it wrote.
			if runErr == nil && !pan && !a.snapshot {
				base := a.cand
				if base == "" {
					base = "endorsement"
				}
				base += ".binarypb"
				m := &rpb.VMEndorsementMap{}
				prototext.Unmarshal(after["out/manifest.textproto"], m)
				found := false
				for _, e := range m.Entries {
					if bytes.Equal(e.Digest, digestOf(images[a.img])) {
						found = true
						if e.Path != base {
							viol("latest-run-not-indexed", fmt.Sprintf("image %c was just endorsed into %s but the manifest maps its digest to %s", 'A'+a.img, base, e.Path))
						}
						if !timeproto.From(e.CreateTime).Equal(ts) {
							r.Outcome("entry-create-time-differs-from-run-time") // not a clause of the statement
						}
					}
				}
				if !found {
					viol("latest-run-not-indexed", fmt.Sprintf("image %c was just endorsed but the manifest has no entry for its digest", 'A'+a.img))
				}
				if d, when := signedDigest(after["out/"+base]); !bytes.Equal(d, digestOf(images[a.img])) || !when.Equal(ts) {
					viol("written-file-not-this-run", fmt.Sprintf("file %s does not hold this run's endorsement of image %c", base, 'A'+a.img))
				}
			}
			r.Validated()
			c := canon(after)
			if r.State(kind + "|" + c) {
				r.Sample(map[string]any{"vcs": kind, "history": append(append([]string(nil), n.Hist...), an), "state": c, "run_error": fmt.Sprint(runErr)})
			}
			if strings.Count(c, "=") >= 3 {
				r.Nontrivial(kind + "|" + c)
			}
			r.Outcome(map[bool]string{true: "run:ok", false: "run:err"}[runErr == nil])
			return t
		}
		if r.Replaying() {
			pfx := fmt.Sprintf("vcs=%s history=", kind)
			if strings.HasPrefix(r.ReplayID, pfx) {
				r.Case(r.ReplayID, func() string {
					node := &mc.Node{State: &tree{kind: kind, files: map[string][]byte{}}}
					for _, an := range strings.Split(strings.TrimPrefix(r.ReplayID, pfx), " ; ") {
						s := apply(node, an)
						node = &mc.Node{State: s, Hist: append(node.Hist, an), Depth: node.Depth + 1}
					}
					return canon(node.State.(*tree).read())
				})
			}
			continue
		}
		b := &mc.BFS{
			MaxDepth: mc.Pick(r, 12, 40),
			// the closure has 891 states per back end; far beyond that something made it unbounded
			MaxStates: 20000,
			Stop:      r.Expired,
			Canon:     func(s any) string { return kind + "|" + canon(s.(*tree).read()) },
			Actions:   func(*mc.Node) []string { return actNames },
			Apply:     apply,
			Drop:      func(s any) { s.(*tree).drop() },
		}
		b.Run(&tree{kind: kind, files: map[string][]byte{}})
		r.Add("states_"+kind, int64(b.States))
		r.Transition(b.Transitions)
		r.Set("closure_reached_"+kind, b.Closed)
		r.Set("depth_completed_"+kind, b.DepthDone)
		if !b.Closed {
			r.Cap("closure not reached for " + kind)
		}
	}
	if !r.Replaying() {
		mergeSubcheck(r)
		longLine(r, auth)
	}
	r.Finish()
}

// longLine is one deep, narrow history: the BFS above closes the state space of three images and
// three names; a manifest index that only misbehaves beyond some size (a lookup that changes
// strategy, a counter of limited width) needs hundreds of entries. 300 distinct images are endorsed
// under 300 distinct names, then images already listed are re-cut under new names and existing
// names are refreshed with overwrite; the state invariants are judged every 25 runs and after each
// of the follow-up runs, the transition clauses on every run.
func longLine(r *mc.Run, auth *fx.Authority) {
	files := map[string][]byte{}
	mkImage := func(i int) []byte {
		img, _ := fx.Build(fx.ImageSpec{Size: 0x3000, Fill: func(b []byte) {
			for j := range b {
				b[j] = byte(j*7+i) ^ byte(i>>8) ^ byte(j>>9)
			}
		}, ResetAddr: 0xff0000ff, Sev: fx.DefaultSev(), Tdx: fx.SmallTdx(0x3000), SevMetaAt: 0x800, TdxMetaAt: 0x400})
		return img
	}
	type step struct {
		img  int
		cand string
		ow   bool
	}
	var steps []step
	for i := 0; i < 300; i++ {
		steps = append(steps, step{i, fmt.Sprintf("rc%04d", i), false})
	}
	steps = append(steps, step{3, "recut-a", false}, step{299, "recut-b", false}, step{150, "rc0007", true}, step{400, "rc0100", true}, step{400, "rc0200", true}, step{7, "rc0299", true}, step{500, "rc0300", false})
	id := "long-line vcs=mem runs=307"
	r.Case(id, func() string {
		bad := 0
		for k := range files {
			delete(files, k)
		}
		for si, st := range steps {
			img := mkImage(st.img)
			ts := fx.T0.Add(time.Duration(si+1) * time.Minute)
			ec := &endorse.Context{
				SevSnp: &sev.SnpEndorsementRequest{LaunchVmsas: 1, ImageID: "87654321-dead-beef-c0de-123456789abc", Product: sgpb.SevProduct_SEV_PRODUCT_MILAN},
				Image:  img, ClSpec: 42, Timestamp: ts, CandidateName: st.cand, OutDir: "out", ImageName: "fw.fd",
				VCS: &memVCS{files: files},
			}
			before := map[string][]byte{}
			for k, v := range files {
				before[k] = v
			}
			ctx := endorse.NewContext(output.NewContext(auth.Ctx(), &output.Options{Quiet: true, Overwrite: st.ow}), ec)
			var runErr error
			pan, val := mc.Guard(func() { runErr = endorse.VirtualFirmware(ctx) })
			r.Eval()
			r.Transition(1)
			where := fmt.Sprintf("run %d (image %d as %s, overwrite=%v)", si+1, st.img, st.cand, st.ow)
			if pan {
				bad++
				r.Violation("long-line/panic", id, fmt.Sprintf("%s panicked: %v", where, val), nil)
				break
			}
			// transition clauses
			path := "out/" + st.cand + ".binarypb"
			if old, existed := before[path]; existed && !st.ow && !bytes.Equal(old, files[path]) {
				bad++
				r.Violation("long-line/endorsement-file-replaced-without-overwrite", id, where+": an existing endorsement file was replaced without overwrite permission", nil)
			}
			if runErr == nil {
				m := &rpb.VMEndorsementMap{}
				prototext.Unmarshal(files["out/manifest.textproto"], m)
				d := sha512.Sum384(img)
				found := ""
				for _, e := range m.Entries {
					if bytes.Equal(e.Digest, d[:]) {
						found = e.Path
					}
				}
				if found != st.cand+".binarypb" {
					bad++
					r.Violation("long-line/latest-run-not-indexed", id, fmt.Sprintf("%s succeeded but the manifest (%d entries) maps its digest to %q", where, len(m.Entries), found), nil)
				}
			}
			// state clauses
			if si%25 == 24 || si >= 299 {
				for _, p := range longStateProblems(files) {
					bad++
					r.Violation("long-line/"+p[0], id, fmt.Sprintf("after %s: %s", where, p[1]), nil)
				}
			}
			if bad > 0 {
				break
			}
		}
		r.Validated()
		r.Nontrivial(id)
		r.Outcome("long-line")
		return fmt.Sprint(bad)
	})
}

// longStateProblems is stateProblems without the three-image naming (digests are printed in hex).
func longStateProblems(files map[string][]byte) [][2]string {
	var out [][2]string
	m := &rpb.VMEndorsementMap{}
	if err := prototext.Unmarshal(files["out/manifest.textproto"], m); err != nil {
		return [][2]string{{"manifest-unparseable", err.Error()}}
	}
	paths, digs := map[string]int{}, map[string]int{}
	for _, e := range m.Entries {
		paths[e.Path]++
		digs[hex.EncodeToString(e.Digest)]++
		fb, ok := files["out/"+e.Path]
		if !ok {
			out = append(out, [2]string{"entry-without-file", fmt.Sprintf("manifest entry %s names no existing endorsement file", e.Path)})
			continue
		}
		if d, _ := signedDigest(fb); !bytes.Equal(d, e.Digest) {
			out = append(out, [2]string{"entry-digest-differs-from-signed", fmt.Sprintf("entry %s lists digest %x… but the file endorses %x…", e.Path, e.Digest[:4], d[:4])})
		}
	}
	for p, n := range paths {
		if n > 1 {
			out = append(out, [2]string{"duplicate-path", fmt.Sprintf("path %s listed %d times in a manifest of %d entries", p, n, len(m.Entries))})
		}
	}
	for d, n := range digs {
		if n > 1 {
			out = append(out, [2]string{"duplicate-digest", fmt.Sprintf("digest %s… listed %d times in a manifest of %d entries", d[:8], n, len(m.Entries))})
		}
	}
	return out
}
