// instr generates the build overlay for one property from /repo's current working tree:
//   - the virtual hook package <module>/vhook (add-only, lives only in the overlay);
//   - add-only export files from /verif/overlay/ (rule "export");
//   - mechanically rewritten copies of working-tree files (rules "points", "clock", "pagesize").
//
// A rule whose target is absent is skipped and reported, never fatal.
package main

import (
	"bytes"
	"encoding/json"
	"flag"
	"fmt"
	"go/ast"
	"go/parser"
	"go/printer"
	"go/token"
	"os"
	"path/filepath"
	"strconv"
	"strings"
)

type rule struct {
	kind   string // points | clock | pagesize | export
	target string // repo-relative file (points/pagesize), package dir (clock), or export source
	dest   string // export: repo-relative destination file
}

var rpcmdExport = rule{kind: "export", target: "rpcmd_export.go", dest: "gcetcbendorsement/cmd/zz_verif_export.go"}

var perProp = map[string][]rule{
	"C01": {rpcmdExport},
	"C03": {rpcmdExport},
	"C02": {rpcmdExport},
	"C07": {rpcmdExport},
	"C19": {rpcmdExport},
	"C05": {{kind: "export", target: "ovmf_export.go", dest: "ovmf/zz_verif_export.go"}},
	"C09": {
		{kind: "points", target: "verify/verify.go"},
		{kind: "points", target: "gcetcbendorsement/sevvalidate.go"},
		{kind: "points", target: "gcetcbendorsement/tdxvalidate.go"},
		{kind: "points", target: "gcetcbendorsement/sevpolicy.go"},
		{kind: "points", target: "gcetcbendorsement/tdxpolicy.go"},
	},
	"C13": {{kind: "export", target: "endorse_export.go", dest: "endorse/zz_verif_export.go"}},
	"C17": {rpcmdExport},
	"C16": {{kind: "export", target: "endorse_export.go", dest: "endorse/zz_verif_export.go"}, rpcmdExport},
	"C20": {
		{kind: "clock", target: "keys/gcpkms"},
	},
	"C20S": {
		{kind: "clock", target: "keys/gcpkms"},
		{kind: "pagesize", target: "keys/gcpkms/bootstrap.go"},
	},
}

const vhookSrc = `// Package vhook is the hook package injected by the /verif overlay (build tag verif only).
package vhook

import "time"

// PointFn is called at every instrumented statement; nil means no-op.
var PointFn func(site string)

// Point is a scheduling point.
func Point(site string) {
	if f := PointFn; f != nil {
		f(site)
	}
}

// BlockFn is called where an instrumented thread has to wait for a condition; nil means that no
// controlled scheduler is installed (the caller then uses the real primitive).
var BlockFn func(site string, ready func() bool)

// AfterFn replaces time.After inside instrumented packages; nil means real time.
var AfterFn func(d time.Duration) <-chan time.Time

// After is the virtual-clock seam.
func After(d time.Duration) <-chan time.Time {
	if f := AfterFn; f != nil {
		return f(d)
	}
	return time.After(d)
}
`

// vsyncSrc stands in for package sync in files instrumented with scheduling points: under a
// controlled scheduler (vhook.BlockFn set) locks, once and wait groups become blocking scheduling
// points decided by the scheduler - a thread that has to wait is disabled instead of parking its
// goroutine while it holds the scheduler's baton; without a scheduler they are the real primitives
// (the free-running -race pass). Types that never block are aliases of the real ones.
const vsyncSrc = `// Package sync is the stand-in for the standard package in instrumented files (/verif overlay).
package sync

import (
	stdsync "sync"

	"` + module + `/vhook"
)

type (
	Map    = stdsync.Map
	Pool   = stdsync.Pool
	Locker = stdsync.Locker
)

// Mutex is a mutual exclusion lock whose waiting is visible to the controlled scheduler.
type Mutex struct {
	mu   stdsync.Mutex
	held bool
}

func (m *Mutex) Lock() {
	if f := vhook.BlockFn; f != nil {
		f("sync.Mutex.Lock", func() bool { return !m.held })
		m.held = true
		return
	}
	m.mu.Lock()
}

func (m *Mutex) TryLock() bool {
	if vhook.BlockFn != nil {
		vhook.Point("sync.Mutex.TryLock")
		if m.held {
			return false
		}
		m.held = true
		return true
	}
	return m.mu.TryLock()
}

func (m *Mutex) Unlock() {
	if vhook.BlockFn != nil {
		if !m.held {
			panic("sync: unlock of unlocked mutex")
		}
		m.held = false
		vhook.Point("sync.Mutex.Unlock")
		return
	}
	m.mu.Unlock()
}

// RWMutex is a reader/writer lock whose waiting is visible to the controlled scheduler.
type RWMutex struct {
	mu      stdsync.RWMutex
	writer  bool
	readers int
}

func (m *RWMutex) Lock() {
	if f := vhook.BlockFn; f != nil {
		f("sync.RWMutex.Lock", func() bool { return !m.writer && m.readers == 0 })
		m.writer = true
		return
	}
	m.mu.Lock()
}

func (m *RWMutex) Unlock() {
	if vhook.BlockFn != nil {
		m.writer = false
		vhook.Point("sync.RWMutex.Unlock")
		return
	}
	m.mu.Unlock()
}

func (m *RWMutex) RLock() {
	if f := vhook.BlockFn; f != nil {
		f("sync.RWMutex.RLock", func() bool { return !m.writer })
		m.readers++
		return
	}
	m.mu.RLock()
}

func (m *RWMutex) RUnlock() {
	if vhook.BlockFn != nil {
		m.readers--
		vhook.Point("sync.RWMutex.RUnlock")
		return
	}
	m.mu.RUnlock()
}

func (m *RWMutex) RLocker() Locker { return (*rlocker)(m) }

type rlocker RWMutex

func (r *rlocker) Lock()   { (*RWMutex)(r).RLock() }
func (r *rlocker) Unlock() { (*RWMutex)(r).RUnlock() }

// Once runs a function once; a second caller waits, visibly, until the first has finished.
type Once struct {
	once    stdsync.Once
	running bool
	done    bool
}

func (o *Once) Do(f func()) {
	if b := vhook.BlockFn; b != nil {
		b("sync.Once.Do", func() bool { return !o.running })
		if o.done {
			return
		}
		o.running = true
		defer func() { o.running, o.done = false, true }()
		f()
		return
	}
	o.once.Do(f)
}

// WaitGroup waits, visibly, for a counter to reach zero.
type WaitGroup struct {
	wg stdsync.WaitGroup
	n  int
}

func (w *WaitGroup) Add(d int) {
	if vhook.BlockFn != nil {
		w.n += d
		vhook.Point("sync.WaitGroup.Add")
		return
	}
	w.wg.Add(d)
}

func (w *WaitGroup) Done() { w.Add(-1) }

func (w *WaitGroup) Wait() {
	if b := vhook.BlockFn; b != nil {
		b("sync.WaitGroup.Wait", func() bool { return w.n <= 0 })
		return
	}
	w.wg.Wait()
}
`

const module = "github.com/google/gce-tcb-verifier"

func main() {
	prop := flag.String("prop", "", "property id")
	repo := flag.String("repo", "/repo", "repository root")
	verif := flag.String("verif", "/verif", "verif root")
	out := flag.String("out", "", "output dir")
	flag.Parse()
	if *out == "" {
		fmt.Fprintln(os.Stderr, "need -out")
		os.Exit(2)
	}
	os.MkdirAll(*out, 0o755)
	full := map[string]string{}
	noexp := map[string]string{}
	put := func(m map[string]string, repoRel, name string, content []byte) {
		p := filepath.Join(*out, name)
		if err := os.WriteFile(p, content, 0o644); err != nil {
			fmt.Fprintln(os.Stderr, err)
			os.Exit(2)
		}
		m[filepath.Join(*repo, repoRel)] = p
	}
	put(full, "vhook/vhook.go", "vhook.go", []byte(vhookSrc))
	noexp[filepath.Join(*repo, "vhook/vhook.go")] = full[filepath.Join(*repo, "vhook/vhook.go")]
	put(full, "vhook/vsync/sync.go", "vsync.go", []byte(vsyncSrc))
	noexp[filepath.Join(*repo, "vhook/vsync/sync.go")] = full[filepath.Join(*repo, "vhook/vsync/sync.go")]
	var skipped []string
	for _, r := range perProp[*prop] {
		switch r.kind {
		case "export":
			src, err := os.ReadFile(filepath.Join(*verif, "overlay", r.target))
			if err != nil {
				skipped = append(skipped, "export "+r.target+": "+err.Error())
				continue
			}
			put(full, r.dest, strings.ReplaceAll(r.dest, "/", "_"), src)
		case "points":
			b, err := instrumentPoints(filepath.Join(*repo, r.target), r.target)
			if err != nil {
				skipped = append(skipped, "points "+r.target+": "+err.Error())
				continue
			}
			name := "points_" + strings.ReplaceAll(r.target, "/", "_")
			put(full, r.target, name, b)
			noexp[filepath.Join(*repo, r.target)] = full[filepath.Join(*repo, r.target)]
		case "clock":
			ents, err := os.ReadDir(filepath.Join(*repo, r.target))
			if err != nil {
				skipped = append(skipped, "clock "+r.target+": "+err.Error())
				continue
			}
			for _, e := range ents {
				n := e.Name()
				if !strings.HasSuffix(n, ".go") || strings.HasSuffix(n, "_test.go") {
					continue
				}
				rel := filepath.Join(r.target, n)
				pagesize := false
				for _, r2 := range perProp[*prop] {
					if r2.kind == "pagesize" && r2.target == rel {
						pagesize = true
					}
				}
				b, changed, err := rewriteClock(filepath.Join(*repo, rel), pagesize)
				if err != nil {
					skipped = append(skipped, "clock "+rel+": "+err.Error())
					continue
				}
				if !changed {
					continue
				}
				name := "clock_" + strings.ReplaceAll(rel, "/", "_")
				put(full, rel, name, b)
				noexp[filepath.Join(*repo, rel)] = full[filepath.Join(*repo, rel)]
			}
		case "pagesize": // handled together with clock
		}
	}
	write := func(name string, m map[string]string) {
		b, _ := json.MarshalIndent(map[string]any{"Replace": m}, "", " ")
		os.WriteFile(filepath.Join(*out, name), b, 0o644)
	}
	write("overlay.json", full)
	write("overlay-noexport.json", noexp)
	for _, s := range skipped {
		fmt.Println("skipped:", s)
	}
	fmt.Printf("overlay for %s: %d files\n", *prop, len(full))
}

func addImport(f *ast.File, path string) {
	for _, im := range f.Imports {
		if im.Path.Value == strconv.Quote(path) {
			return
		}
	}
	spec := &ast.ImportSpec{Path: &ast.BasicLit{Kind: token.STRING, Value: strconv.Quote(path)}}
	decl := &ast.GenDecl{Tok: token.IMPORT, Specs: []ast.Spec{spec}}
	f.Decls = append([]ast.Decl{decl}, f.Decls...)
	f.Imports = append(f.Imports, spec)
}

func render(fset *token.FileSet, f *ast.File) ([]byte, error) {
	var buf bytes.Buffer
	buf.WriteString("// Code generated by /verif/harness/cmd/instr from the working tree. DO NOT EDIT.\n\n")
	if err := (&printer.Config{Mode: printer.UseSpaces | printer.TabIndent, Tabwidth: 8}).Fprint(&buf, fset, f); err != nil {
		return nil, err
	}
	return buf.Bytes(), nil
}

func instrumentPoints(path, rel string) ([]byte, error) {
	fset := token.NewFileSet()
	f, err := parser.ParseFile(fset, path, nil, 0) // comments dropped on purpose
	if err != nil {
		return nil, err
	}
	point := func(pos token.Pos) ast.Stmt {
		site := fmt.Sprintf("%s:%d", rel, fset.Position(pos).Line)
		return &ast.ExprStmt{X: &ast.CallExpr{
			Fun:  &ast.SelectorExpr{X: ast.NewIdent("vhook"), Sel: ast.NewIdent("Point")},
			Args: []ast.Expr{&ast.BasicLit{Kind: token.STRING, Value: strconv.Quote(site)}},
		}}
	}
	weave := func(list []ast.Stmt) []ast.Stmt {
		out := make([]ast.Stmt, 0, 2*len(list))
		for _, s := range list {
			out = append(out, point(s.Pos()), s)
		}
		return out
	}
	// the body of a switch / type switch / select is a list of clauses, not of statements
	clauseLists := map[*ast.BlockStmt]bool{}
	ast.Inspect(f, func(n ast.Node) bool {
		switch x := n.(type) {
		case *ast.SwitchStmt:
			clauseLists[x.Body] = true
		case *ast.TypeSwitchStmt:
			clauseLists[x.Body] = true
		case *ast.SelectStmt:
			clauseLists[x.Body] = true
		}
		return true
	})
	ast.Inspect(f, func(n ast.Node) bool {
		switch x := n.(type) {
		case *ast.BlockStmt:
			if clauseLists[x] {
				return true
			}
			x.List = weave(x.List)
		case *ast.CaseClause:
			x.Body = weave(x.Body)
		case *ast.CommClause:
			x.Body = weave(x.Body)
		}
		return true
	})
	// package sync -> the stand-in whose waiting the scheduler can see (same package name, so no
	// other identifier changes)
	for _, im := range f.Imports {
		if im.Path.Value == `"sync"` {
			im.Path.Value = strconv.Quote(module + "/vhook/vsync")
		}
	}
	addImport(f, module+"/vhook")
	return render(fset, f)
}

func rewriteClock(path string, pagesize bool) ([]byte, bool, error) {
	fset := token.NewFileSet()
	f, err := parser.ParseFile(fset, path, nil, parser.ParseComments)
	if err != nil {
		return nil, false, err
	}
	changed := false
	timeName := ""
	for _, im := range f.Imports {
		if im.Path.Value == `"time"` {
			timeName = "time"
			if im.Name != nil {
				timeName = im.Name.Name
			}
		}
	}
	ast.Inspect(f, func(n ast.Node) bool {
		switch x := n.(type) {
		case *ast.CallExpr:
			if sel, ok := x.Fun.(*ast.SelectorExpr); ok && timeName != "" {
				if id, ok := sel.X.(*ast.Ident); ok && id.Name == timeName && sel.Sel.Name == "After" {
					sel.X = ast.NewIdent("vhook")
					changed = true
				}
			}
		case *ast.ValueSpec:
			if pagesize {
				for i, nm := range x.Names {
					if nm.Name == "keyPageSize" && i < len(x.Values) {
						x.Values[i] = &ast.BasicLit{Kind: token.INT, Value: "3"}
						changed = true
					}
				}
			}
		}
		return true
	})
	if !changed {
		return nil, false, nil
	}
	addImport(f, module+"/vhook")
	// The time import may have become unused; keep it referenced.
	if timeName != "" {
		f.Decls = append(f.Decls, &ast.GenDecl{Tok: token.VAR, Specs: []ast.Spec{&ast.ValueSpec{
			Names: []*ast.Ident{ast.NewIdent("_")}, Values: []ast.Expr{&ast.SelectorExpr{X: ast.NewIdent(timeName), Sel: ast.NewIdent("Second")}}}}})
	}
	b, err := render(fset, f)
	return b, true, err
}
