// C03 — whatever the signer produces verifies, also after key rotations.
//
// Engine E3: histories bootstrap; rotate^n through the real signing CLI (cmd.MakeApp) on every
// key-manager / authority combination; after every command the real endorse command is run for a
// menu of request shapes, and every endorsement issued so far is verified (library verifier at the
// boundary times of both certificates, independent RSA-PSS over the raw inspect output, every
// listed measurement through the validation entry points).
package main

import (
	"bytes"
	"context"
	"crypto"
	"crypto/rsa"
	"crypto/sha256"
	"crypto/x509"
	"encoding/hex"
	"fmt"
	"os"
	"path/filepath"
	"strings"
	"time"

	"github.com/google/gce-tcb-verifier/cmd/output"
	"github.com/google/gce-tcb-verifier/gcetcbendorsement"
	epb "github.com/google/gce-tcb-verifier/proto/endorsement"
	"github.com/google/gce-tcb-verifier/verify"
	"github.com/google/go-sev-guest/abi"
	cpb "github.com/google/go-sev-guest/proto/check"
	"google.golang.org/protobuf/proto"

	"verifharness/att"
	"verifharness/fx"
	"verifharness/kmfx"
	"verifharness/mc"
	"verifharness/rpcli"
)

type issued struct {
	id    string
	step  int
	bytes []byte
}

type cmdSpec struct {
	name    string
	args    []string
	ts      time.Time
	mayFail bool
}

func main() {
	r := mc.NewRun("C03")
	nRot := mc.Pick(r, 2, 3)
	r.Rule(fmt.Sprintf("E3 over histories bootstrap; rotate; rotate with a colliding serial (refused); the same with --overwrite (replaces a certificate object); rotate serial=9; rotate serial=9 --keep_going (colliding); [thorough: rotate with a new common name] (bound %d) through the real CLI for memkm+memca, memkm+gcsca and localkm+localca with fresh component objects per command, and for the two storage-backed authorities also with one set of objects kept alive over the whole history; after each command 18 endorse request shapes {snp, tdx, both} x {launch VMSAs 0,1,2} x {changelist, commit} plus one with changelist and commit together and 5 with document dates of unusual magnitude (2262-04-11T23:47:17Z, 2300, 9999, 1969 with a fraction, 1600); every endorsement issued so far is re-verified after every later command at {start-1s, start, mid, end, end+1s} of the intersection of both certificates' validity; states = distinct (authority, history prefix, request shape); non-trivial = distinct (endorsement, verification time, entry point) accepted inside validity", nRot))
	defer kmfx.Cleanup()
	image := fx.SmallImage(0x3000)
	fwDir := filepath.Join(kmfx.ScratchRoot(), "fw")
	os.MkdirAll(fwDir, 0o755)
	fw := filepath.Join(fwDir, "ovmf.fd")
	os.WriteFile(fw, image, 0o644)
	// The whole history lives in an epoch the wall clock is far away from (certificates from 2040),
	// so that only the verification time the caller names can make anything valid: a verifier that
	// falls back to the wall clock anywhere rejects everything here.
	t0 := time.Date(2040, 3, 1, 12, 0, 0, 0, time.UTC)
	tsf := func(t time.Time) string { return "--timestamp=" + t.Format(time.RFC3339) }
	allCmds := []cmdSpec{
		{"bootstrap", []string{"bootstrap", tsf(t0)}, t0, false},
		{"rotate", []string{"rotate", tsf(t0.Add(30 * 24 * time.Hour))}, t0.Add(30 * 24 * time.Hour), false},
		// A rotation whose certificate object name collides with an existing one (serial 2 is the
		// bootstrap signing certificate) may be refused; whatever it leaves behind must still endorse.
		{"rotate serial=2 (collides)", []string{"rotate", "--rotated_key_serial_override=2", tsf(t0.Add(45 * 24 * time.Hour))}, t0.Add(45 * 24 * time.Hour), true},
		// The same collision with --overwrite: the certificate object of the first signing key is
		// replaced while the authority object that read it is still in use.
		{"rotate serial=2 --overwrite (replaces)", []string{"rotate", "--rotated_key_serial_override=2", "--overwrite", tsf(t0.Add(50 * 24 * time.Hour))}, t0.Add(50 * 24 * time.Hour), true},
		{"rotate serial=9", []string{"rotate", "--rotated_key_serial_override=9", tsf(t0.Add(60 * 24 * time.Hour))}, t0.Add(60 * 24 * time.Hour), false},
		{"rotate serial=9 --keep_going (collides)", []string{"rotate", "--rotated_key_serial_override=9", "--keep_going", tsf(t0.Add(75 * 24 * time.Hour))}, t0.Add(75 * 24 * time.Hour), true},
		{"rotate cn=X", []string{"rotate", "--signing_key_cn=X", tsf(t0.Add(400 * 24 * time.Hour))}, t0.Add(400 * 24 * time.Hour), false},
	}
	// Histories are lines through these commands. Quick: two orders (the replacing rotation before
	// and after a refused one; the serial-9 pair first); thorough adds the new-common-name rotation and
	// every ordered selection of three of the five rotations after bootstrap.
	orders := [][]int{{0, 1, 3, 2, 4, 5}, {0, 4, 5, 1, 2, 3}}
	if r.Thorough() {
		orders[0] = append(orders[0], 6)
		for a := 1; a <= 5; a++ {
			for b := 1; b <= 5; b++ {
				for c := 1; c <= 5; c++ {
					if a != b && b != c && a != c {
						orders = append(orders, []int{0, a, b, c})
					}
				}
			}
		}
	}
	type shape struct {
		name string
		args []string
		ts   string // document timestamp override ("" = an hour after the command before)
	}
	var shapes []shape
	for _, tech := range [][]string{{"--add_snp"}, {"--add_tdx"}, {"--add_snp", "--add_tdx"}} {
		for _, vm := range []int{0, 1, 2} {
			for _, prov := range []string{"--clspec=5", "--commit=" + strings.Repeat("ab", 20)} {
				a := append(append([]string{}, tech...), fmt.Sprintf("--snp_launch_vmsas=%d", vm), prov)
				shapes = append(shapes, shape{strings.Join(a, " "), a, ""})
			}
		}
	}
	// Both kinds of provenance in one request (each flag alone is in the product above).
	{
		a := []string{"--add_snp", "--add_tdx", "--snp_launch_vmsas=1", "--clspec=5", "--commit=" + strings.Repeat("ab", 20)}
		shapes = append(shapes, shape{strings.Join(a, " "), a, ""})
	}
	// Document dates of unusual magnitude (the date of the document is the requester's; it is not
	// bound to the certificates' validity): beyond what an int64 of nanoseconds since 1970 holds,
	// before 1970 with a fraction, the last year a textual timestamp can carry.
	for _, ts := range []string{"2262-04-11T23:47:17Z", "2300-01-01T00:00:00Z", "9999-12-30T00:00:00Z", "1969-07-20T20:17:40.5Z", "1600-01-01T00:00:00Z"} {
		a := []string{"--add_snp", "--add_tdx", "--snp_launch_vmsas=1", "--clspec=5"}
		shapes = append(shapes, shape{strings.Join(a, " ") + " document-date=" + ts, a, ts})
	}
	ctx := output.NewContext(context.Background(), &output.Options{Quiet: true})
	prodPolicy := abi.SnpPolicyToBytes(abi.SnpPolicy{SMT: true, MigrateMA: true})
	type mode struct {
		kind       string
		oneProcess bool
	}
	var modes []mode
	for _, kind := range kmfx.Kinds {
		modes = append(modes, mode{kind, false})
	}
	// The same histories with the key-manager and authority objects kept alive across commands
	// (one process running the whole history), for the authorities that keep state of their own.
	modes = append(modes, mode{kmfx.MemGcs, true}, mode{kmfx.LocalLocal, true})
	for _, md := range modes {
		for oi, order := range orders {
			kind := md.kind
			if r.Thorough() && oi >= 2 && !md.oneProcess && kind != kmfx.MemGcs {
				continue // the order sweep runs on the storage-backed authority and the one-process modes
			}
			var cmds []cmdSpec
			for _, i := range order {
				cmds = append(cmds, allCmds[i])
			}
			w := kmfx.NewWorld(kind)
			w.OneProcess = md.oneProcess
			if md.oneProcess {
				kind += "(one-process)"
			}
			var all []issued
			var hist []string
			for step, c := range cmds {
				hist = append(hist, c.name)
				if err := w.CLI(c.args...); err != nil {
					if !c.mayFail {
						// the statement quantifies over key histories that happened; a refused command
						// ends this one (counted, not judged)
						r.Outcome("history-command-refused:" + c.name)
						break
					}
					hist[len(hist)-1] += " [refused]"
					r.Outcome("command-refused")
				}
				r.Transition(1)
				st := w.Inspect()
				if st.Root == nil {
					r.Outcome("no-root-certificate-after:" + c.name) // nothing to verify under; counted only
					break
				}
				roots := x509.NewCertPool()
				roots.AddCert(st.Root)
				// Issue endorsements with the current primary key.
				for si, sh := range shapes {
					id := fmt.Sprintf("kind=%s history=%s endorse=[%s]", kind, strings.Join(hist, ";"), sh.name)
					out := filepath.Join(kmfx.ScratchRoot(), fmt.Sprintf("out-%s-%d-%d", kind, step, si))
					os.MkdirAll(out, 0o755)
					docTime := tsf(c.ts.Add(time.Hour))
					if sh.ts != "" {
						docTime = "--timestamp=" + sh.ts
					}
					args := append([]string{"endorse", "--uefi=" + fw, "--out_root=" + out, "--out_dir=o", docTime}, sh.args...)
					err := w.CLI(args...)
					r.Eval()
					r.Transition(1)
					if err != nil {
						// the statement is about the endorsement the pipeline writes; a refusal writes none
						r.Outcome("endorse-refused")
						continue
					}
					b, err := os.ReadFile(filepath.Join(out, "o", "endorsement.binarypb"))
					os.RemoveAll(out)
					if err != nil {
						r.Outcome("endorse-wrote-no-file")
						continue
					}
					all = append(all, issued{id, step, b})
					if r.State(id) && si%7 == 0 {
						r.Sample(map[string]any{"authority": kind, "history": append([]string(nil), hist...), "endorse_request": sh.name, "endorsement_bytes": len(b)})
					}
				}
				// Verify everything issued so far.
				for _, is := range all {
					is := is
					checkOne(r, ctx, kind, is, step, strings.Join(hist, ";"), st.Root, roots, prodPolicy, is.step == step)
				}
			}
			w.Drop()
		}
	}
	if r.Evaluations() == 0 && !r.Replaying() {
		// not a verdict on the code: nothing could be produced, so nothing was verified
		r.Cap("no key history could be built (bootstrap refused): nothing was verified")
	}
	r.Finish()
}

func checkOne(r *mc.Run, ctx context.Context, kind string, is issued, step int, hist string, root *x509.Certificate, roots *x509.CertPool, prodPolicy uint64, fresh bool) {
	id := fmt.Sprintf("%s verified-after=[%s]", is.id, hist)
	if !r.Want(id) {
		return
	}
	viol := func(what, msg string) { r.Violation(kind+"/"+what, id, msg, nil) }
	e := &epb.VMLaunchEndorsement{}
	g := &epb.VMGoldenMeasurement{}
	if proto.Unmarshal(is.bytes, e) != nil || proto.Unmarshal(e.SerializedUefiGolden, g) != nil {
		viol("written-file-unparseable", "the written endorsement does not parse")
		return
	}
	cert, err := x509.ParseCertificate(g.Cert)
	if err != nil {
		viol("embedded-cert-unparseable", err.Error())
		return
	}
	start, end := cert.NotBefore, cert.NotAfter
	if root.NotBefore.After(start) {
		start = root.NotBefore
	}
	if root.NotAfter.Before(end) {
		end = root.NotAfter
	}
	mid := start.Add(end.Sub(start) / 2)
	for _, tc := range []struct {
		name   string
		t      time.Time
		inside bool
	}{{"start-1s", start.Add(-time.Second), false}, {"start", start, true}, {"mid", mid, true}, {"end", end, true}, {"end+1s", end.Add(time.Second), false}} {
		err := verify.Endorsement(is.bytes, &verify.Options{RootsOfTrust: roots, Now: tc.t})
		r.Eval()
		r.Validated()
		if tc.inside && err != nil {
			viol("rejected-inside-validity/"+tc.name, fmt.Sprintf("verify.Endorsement rejects at %s (%s of the validity window): %v", tc.t.Format(time.RFC3339), tc.name, err))
		}
		if !tc.inside && err == nil {
			r.Outcome("accepted-outside-validity:" + tc.name) // acceptance outside the validity window is C01's clause, counted only
		}
		if tc.inside && err == nil {
			r.Nontrivial(id + "@" + tc.name)
		}
		r.Outcome(map[bool]string{true: "accept", false: "reject"}[err == nil] + "@" + tc.name)
	}
	// Independent RSA-PSS check over what the inspect commands emit (the documented openssl flow).
	pub, _ := cert.PublicKey.(*rsa.PublicKey)
	payload, sig, certOut := e.SerializedUefiGolden, e.Signature, g.Cert
	if rpcli.Available {
		files := map[string][]byte{"end": is.bytes}
		p := rpcli.Run(mid, nil, files, "inspect", "payload", "end", "--bytesform=bin")
		s := rpcli.Run(mid, nil, files, "inspect", "signature", "end", "--bytesform=bin")
		c := rpcli.Run(mid, nil, files, "inspect", "mask", "end", "--path=cert", "--bytesform=bin")
		if p.Err != nil || s.Err != nil || c.Err != nil {
			viol("inspect-fails", fmt.Sprintf("inspect commands fail: %v %v %v", p.Err, s.Err, c.Err))
		} else {
			payload, sig, certOut = p.Stdout, s.Stdout, c.Stdout
			if !bytes.Equal(payload, e.SerializedUefiGolden) || !bytes.Equal(sig, e.Signature) || !bytes.Equal(certOut, g.Cert) {
				viol("inspect-output-not-verbatim", "inspect payload/signature/mask cert do not emit the stored bytes verbatim")
			}
		}
	}
	if c2, err := x509.ParseCertificate(certOut); err == nil {
		pub, _ = c2.PublicKey.(*rsa.PublicKey)
	}
	d := sha256.Sum256(payload)
	if pub == nil || rsa.VerifyPSS(pub, crypto.SHA256, d[:], sig, &rsa.PSSOptions{SaltLength: 32, Hash: crypto.SHA256}) != nil {
		viol("independent-pss-check-fails", "RSA-PSS(SHA-256, salt 32) over the emitted payload with the emitted certificate's key does not verify")
	}
	r.Eval()
	if !fresh {
		return // the measurement checks below do not depend on later rotations
	}
	// Every listed measurement is accepted for its configuration.
	for n, m := range g.GetSevSnp().GetMeasurements() {
		if err := verify.EndorsementProto(e, &verify.Options{RootsOfTrust: roots, Now: mid, SNP: &verify.SNPOptions{Measurement: m, ExpectedLaunchVMSAs: n}}); err != nil {
			viol("listed-measurement-rejected/verify", fmt.Sprintf("measurement listed for %d VMSAs (%s…) is rejected for that configuration by the verifier: %v", n, hex.EncodeToString(m[:6]), err))
		}
		if err := gcetcbendorsement.SevValidate(ctx, att.Snp(m, is.bytes), &gcetcbendorsement.SevValidateOptions{RootsOfTrust: roots, Now: mid, ExpectedLaunchVmsas: n,
			BasePolicy: &cpb.Policy{MinimumVersion: "0.0", Policy: prodPolicy}}); err != nil {
			viol("listed-measurement-rejected/SevValidate", fmt.Sprintf("measurement listed for %d VMSAs is rejected for that configuration by SevValidate: %v", n, err))
		}
		if err := verify.SNPValidateFunc(&verify.Options{RootsOfTrust: roots, Now: mid})(att.Snp(m, nil), is.bytes); err != nil {
			viol("listed-measurement-rejected/closure", fmt.Sprintf("measurement listed for %d VMSAs is rejected by the validator closure: %v", n, err))
		}
		r.EvalN(3)
	}
	for _, row := range g.GetTdx().GetMeasurements() {
		if err := gcetcbendorsement.TdxValidate(ctx, att.TdxQuote(row.Mrtd), &gcetcbendorsement.TdxValidateOptions{Endorsement: e, RootsOfTrust: roots, Now: mid, ExpectedRAMGiB: int(row.RamGib)}); err != nil {
			viol("listed-mrtd-rejected/TdxValidate", fmt.Sprintf("MRTD listed for RAM %d GiB is rejected for that configuration: %v", row.RamGib, err))
		}
		r.Eval()
	}
}
