// C18 — binary codecs are mutually inverse, size-exact and strict.
//
// Engine E5: for every codec the tools use, field values are drawn from boundary menus (all
// pairs), encoded by the real code and compared byte for byte with an independent layout table
// (EFI GUID, GUID-table entries, SEV/TDX metadata records, reset block, VMSA per APM vol. 2 table
// B-4, PI hand-off blocks, TCG event-log records, SP800-155 events); decoders are applied to the
// encodings, to every truncation and extension, and to reserved/out-of-range variants.
package main

import (
	"bytes"
	"encoding/binary"
	"fmt"
	"github.com/google/gce-tcb-verifier/extract"
	"os"
	"path/filepath"
	"strings"
	"verifharness/kmfx"

	"github.com/google/gce-tcb-verifier/eventlog"
	"github.com/google/gce-tcb-verifier/ovmf/abi"
	opb "github.com/google/gce-tcb-verifier/proto/ovmf"
	spb "github.com/google/gce-tcb-verifier/proto/sev"
	"github.com/google/gce-tcb-verifier/sev"
	"github.com/google/uuid"
	"google.golang.org/protobuf/proto"
	"google.golang.org/protobuf/reflect/protoreflect"

	"verifharness/mc"
	"verifharness/ref"
)

var (
	u16s  = []uint16{0, 1, 0x7fff, 0x8000, 0xffff, 0x1234}
	u32s  = []uint32{0, 1, 0x7fffffff, 0x80000000, 0xffffffff, 0x12345678}
	u64s  = []uint64{0, 1, 1<<63 - 1, 1 << 63, ^uint64(0), 0x1122334455667788}
	guids = []string{"00000000-0000-0000-0000-000000000000", "ffffffff-ffff-ffff-ffff-ffffffffffff", "00112233-4455-6677-8899-aabbccddeeff", "96b582de-1fb2-45f7-baea-a366c55a082d"}
)

func le(v uint64, w int) []byte {
	b := make([]byte, 8)
	binary.LittleEndian.PutUint64(b, v)
	return b[:w]
}

// vmsaField is the independent layout table: proto field name -> offset, width.
type vmsaField struct {
	name  string
	off   int
	width int
}

var vmsaScalars = []vmsaField{
	{"cpl", 0xcb, 1}, {"efer", 0xd0, 8}, {"xss", 0x140, 8}, {"cr4", 0x148, 8}, {"cr3", 0x150, 8}, {"cr0", 0x158, 8}, {"dr7", 0x160, 8}, {"dr6", 0x168, 8},
	{"rflags", 0x170, 8}, {"rip", 0x178, 8}, {"rsp", 0x1d8, 8}, {"rax", 0x1f8, 8}, {"star", 0x200, 8}, {"lstar", 0x208, 8}, {"cstar", 0x210, 8}, {"sfmask", 0x218, 8},
	{"kernel_gs_base", 0x220, 8}, {"sysenter_cs", 0x228, 8}, {"sysenter_esp", 0x230, 8}, {"sysenter_eip", 0x238, 8}, {"cr2", 0x240, 8}, {"g_pat", 0x268, 8},
	{"dbgctl", 0x270, 8}, {"br_from", 0x278, 8}, {"br_to", 0x280, 8}, {"last_excp_from", 0x288, 8}, {"last_excp_to", 0x290, 8}, {"pkru", 0x2e8, 4},
	{"rcx", 0x308, 8}, {"rdx", 0x310, 8}, {"rbx", 0x318, 8}, {"rbp", 0x328, 8}, {"rsi", 0x330, 8}, {"rdi", 0x338, 8}, {"r8", 0x340, 8}, {"r9", 0x348, 8},
	{"r10", 0x350, 8}, {"r11", 0x358, 8}, {"r12", 0x360, 8}, {"r13", 0x368, 8}, {"r14", 0x370, 8}, {"r15", 0x378, 8},
	{"sw_exit_code", 0x390, 8}, {"sw_exit_info_1", 0x398, 8}, {"sw_exit_info_2", 0x3a0, 8}, {"sw_scratch", 0x3a8, 8}, {"sev_features", 0x3b0, 8}, {"xcr0", 0x3e8, 8},
}
var vmsaSegs = []vmsaField{{"es", 0x00, 16}, {"cs", 0x10, 16}, {"ss", 0x20, 16}, {"ds", 0x30, 16}, {"fs", 0x40, 16}, {"gs", 0x50, 16}, {"gdtr", 0x60, 16}, {"ldtr", 0x70, 16}, {"idtr", 0x80, 16}, {"tr", 0x90, 16}}

// reserved byte ranges with their documented sizes (proto comments / APM table).
var vmsaReserved = []vmsaField{{"reserved_1", 0xa0, 43}, {"reserved_2", 0xcc, 4}, {"reserved_3", 0xd8, 104}, {"reserved_4", 0x180, 88}, {"reserved_5", 0x1e0, 24},
	{"reserved_6", 0x248, 32}, {"reserved_7", 0x298, 80}, {"reserved_7a", 0x2ec, 20}, {"reserved_10", 0x380, 16}, {"reserved_11", 0x3b8, 48}}

func main() {
	r := mc.NewRun("C18")
	r.Rule("E5: per structure, every field over a boundary menu (all pairs of fields x values), encodings compared with an independent layout table, decode(encode(v)) = v, every truncation and one-byte extension of each encoding fed to the decoder, each reserved byte set / documented-size zero fill (also into a used buffer) / off-by-one size, out-of-range scalars; TCG log and SP800-155 event round trips including zero padding 0..8 and every truncation; encoder-produced logs of several 4 KiB blocks and of more than 64 KiB decoded from memory and through the file path at every alignment; decoding into used values; non-trivial = distinct (structure, check) pairs that exercised an accepted encoding")
	guidCodec(r)
	ovmfCodecs(r)
	vmsaCodec(r)
	hobCodec(r)
	eventCodecs(r)
	r.Finish()
}

func check(r *mc.Run, id string, f func() string) {
	r.Case(id, func() string {
		var out string
		pan, val := mc.Guard(func() { out = f() })
		r.Eval()
		r.Validated()
		if pan {
			r.Violation("panic/"+strings.SplitN(id, " ", 2)[0], id, fmt.Sprintf("panicked: %v", val), nil)
			return "panic"
		}
		r.Nontrivial(id)
		r.Outcome(strings.SplitN(id, " ", 2)[0]) // cases per structure
		if r.State(strings.SplitN(id, " ", 3)[0] + strings.SplitN(id+" x x", " ", 3)[1]) {
			r.Sample(map[string]any{"case": id, "observation": out})
		}
		return out
	})
}

func guidCodec(r *mc.Run) {
	for _, g := range guids {
		g := g
		check(r, "efi-guid roundtrip "+g, func() string {
			u := uuid.MustParse(g)
			want := ref.EfiGUID(g)
			got := make([]byte, 16)
			if err := abi.PutUUID(got, u); err != nil || !bytes.Equal(got, want[:]) {
				r.Violation("efi-guid/encoding", "efi-guid "+g, fmt.Sprintf("PutUUID(%s) = %x, EFI_GUID layout gives %x", g, got, want), nil)
			}
			back, err := abi.FromEFIGUID(got)
			if err != nil || back != u {
				r.Violation("efi-guid/roundtrip", "efi-guid "+g, "FromEFIGUID(PutUUID(g)) != g", nil)
			}
			e := abi.FromUUID(u)
			got2 := make([]byte, 16)
			e.Put(got2)
			if !bytes.Equal(got2, want[:]) {
				r.Violation("efi-guid/struct-encoding", "efi-guid "+g, "EFIGUID.Put differs from the EFI_GUID layout", nil)
			}
			for _, n := range []int{0, 15, 17} {
				if _, err := abi.FromEFIGUID(make([]byte, n)); err == nil {
					r.Violation("efi-guid/wrong-size-accepted", "efi-guid size", fmt.Sprintf("FromEFIGUID accepted %d bytes", n), nil)
				}
			}
			if abi.PutUUID(make([]byte, 15), u) == nil {
				r.Violation("efi-guid/short-buffer-accepted", "efi-guid size", "PutUUID accepted a 15-byte buffer", nil)
			}
			return fmt.Sprintf("%x", got)
		})
	}
}

func ovmfCodecs(r *mc.Run) {
	// FwGUIDEntry, MetadataOffset, SevEsResetBlock
	for _, sz := range u16s {
		for _, g := range guids {
			for _, v := range u32s {
				sz, g, v := sz, g, v
				check(r, fmt.Sprintf("guid-entries size=%#x guid=%s value=%#x", sz, g, v), func() string {
					eg := ref.EfiGUID(g)
					want := append(le(uint64(sz), 2), eg[:]...)
					buf := make([]byte, abi.SizeofFwGUIDEntry)
					e := &abi.FwGUIDEntry{Size: sz, GUID: uuid.MustParse(g)}
					if err := e.Put(buf); err != nil || !bytes.Equal(buf, want) || abi.SizeofFwGUIDEntry != 18 {
						r.Violation("fwguidentry/encoding", "fwguidentry", fmt.Sprintf("FwGUIDEntry.Put = %x, layout gives %x", buf, want), nil)
					}
					var back abi.FwGUIDEntry
					if err := back.PopulateFromBytes(buf); err != nil || back != *e {
						r.Violation("fwguidentry/roundtrip", "fwguidentry", "decode(encode(v)) != v", nil)
					}
					// MetadataOffset = offset u32 + entry
					mo := &abi.MetadataOffset{Offset: v, GUIDEntry: *e}
					mb := make([]byte, abi.SizeofMetadataOffset)
					if err := mo.Put(mb); err != nil || !bytes.Equal(mb, append(le(uint64(v), 4), want...)) || abi.SizeofMetadataOffset != 22 {
						r.Violation("metadataoffset/encoding", "metadataoffset", "MetadataOffset.Put differs from the layout", nil)
					}
					if b2, err := abi.MetadataOffsetFromBytes(mb); err != nil || *b2 != *mo {
						r.Violation("metadataoffset/roundtrip", "metadataoffset", "decode(encode(v)) != v", nil)
					}
					// reset block: addr u32, size u16, guid
					gu := uuid.MustParse(g)
					rb := &opb.SevEsResetBlock{Addr: v, Size: uint32(sz), Guid: gu[:]}
					rbuf := make([]byte, abi.SizeofSevEsResetBlock)
					if err := abi.PutSevEsResetBlock(rbuf, rb); err != nil || !bytes.Equal(rbuf, append(append(le(uint64(v), 4), le(uint64(sz), 2)...), eg[:]...)) {
						r.Violation("resetblock/encoding", "resetblock", "PutSevEsResetBlock differs from the layout", nil)
					}
					if b3, err := abi.SevEsResetBlockFromBytes(rbuf); err != nil || !proto.Equal(b3, rb) {
						r.Violation("resetblock/roundtrip", "resetblock", "decode(encode(v)) != v", nil)
					}
					for _, n := range []int{0, 21, 23} {
						if _, err := abi.SevEsResetBlockFromBytes(make([]byte, n)); err == nil {
							r.Violation("resetblock/wrong-size-accepted", "resetblock size", fmt.Sprintf("accepted %d bytes", n), nil)
						}
					}
					if abi.PutSevEsResetBlock(make([]byte, 21), rb) == nil || e.Put(make([]byte, 17)) == nil || mo.Put(make([]byte, 21)) == nil {
						r.Violation("guid-entries/short-buffer-accepted", "short buffer", "an encoder accepted a buffer shorter than the ABI size", nil)
					}
					return fmt.Sprintf("%x", mb)
				})
			}
		}
	}
	// SEV metadata records
	for _, a := range u32s {
		for _, b := range u32s {
			for _, c := range u32s {
				a, b, c := a, b, c
				check(r, fmt.Sprintf("sev-metadata a=%#x b=%#x c=%#x", a, b, c), func() string {
					s := &abi.SevMetadataSection{Address: a, Length: b, Kind: c}
					buf := make([]byte, abi.SizeofSevMetadataSection)
					want := append(append(le(uint64(a), 4), le(uint64(b), 4)...), le(uint64(c), 4)...)
					if err := s.Put(buf); err != nil || !bytes.Equal(buf, want) || abi.SizeofSevMetadataSection != 12 {
						r.Violation("sevsection/encoding", "sevsection", "SevMetadataSection.Put differs from the layout", nil)
					}
					if *abi.SevMetadataSectionFromBytes(buf) != *s {
						r.Violation("sevsection/roundtrip", "sevsection", "decode(encode(v)) != v", nil)
					}
					h := &abi.SevMetadata{Signature: a, Length: b, Version: c, Sections: a ^ b}
					hb := make([]byte, abi.SizeofSevMetadata)
					if err := h.Put(hb); err != nil || !bytes.Equal(hb, append(want, le(uint64(a^b), 4)...)) || abi.SizeofSevMetadata != 16 {
						r.Violation("sevmetadata/encoding", "sevmetadata", "SevMetadata.Put differs from the layout", nil)
					}
					if *abi.SevMetadataFromBytes(hb) != *h {
						r.Violation("sevmetadata/roundtrip", "sevmetadata", "decode(encode(v)) != v", nil)
					}
					if s.Put(make([]byte, 11)) == nil || h.Put(make([]byte, 15)) == nil {
						r.Violation("sev-metadata/short-buffer-accepted", "short buffer", "an encoder accepted a short buffer", nil)
					}
					return fmt.Sprintf("%x", buf)
				})
			}
		}
	}
	// TDX metadata
	for _, a := range u32s {
		for _, q := range u64s {
			for _, c := range u32s {
				a, q, c := a, q, c
				check(r, fmt.Sprintf("tdx-metadata a=%#x q=%#x c=%#x", a, q, c), func() string {
					s := &abi.TDXMetadataSection{DataOffset: a, DataSize: c, MemoryBase: abi.EFIPhysicalAddress(q), MemorySize: ^q, SectionType: c ^ 1, Attributes: a ^ 3}
					want := append(append(append(append(append(le(uint64(a), 4), le(uint64(c), 4)...), le(q, 8)...), le(^q, 8)...), le(uint64(c^1), 4)...), le(uint64(a^3), 4)...)
					buf := make([]byte, abi.SizeofTDXMetdataSection)
					if err := s.Put(buf); err != nil || !bytes.Equal(buf, want) || abi.SizeofTDXMetdataSection != 32 {
						r.Violation("tdxsection/encoding", "tdxsection", "TDXMetadataSection.Put differs from the layout", nil)
					}
					if back, err := abi.TDXMetadataSectionFromBytes(buf); err != nil || *back != *s {
						r.Violation("tdxsection/roundtrip", "tdxsection", "decode(encode(v)) != v", nil)
					}
					d := &abi.TDXMetadataDescriptor{Signature: a, Length: c, Version: a ^ c, SectionCount: 2}
					m := &abi.TDXMetadata{Header: d, Sections: []*abi.TDXMetadataSection{s, s}}
					mb := make([]byte, 16+64)
					wantm := append(append(append(append(le(uint64(a), 4), le(uint64(c), 4)...), le(uint64(a^c), 4)...), le(2, 4)...), append(want, want...)...)
					if err := m.Put(mb); err != nil || !bytes.Equal(mb, wantm) || m.Size() != 80 {
						r.Violation("tdxmetadata/encoding", "tdxmetadata", "TDXMetadata.Put differs from the layout", nil)
					}
					back, err := abi.TDXMetadataFromBytes(mb)
					if err != nil || *back.Header != *d || len(back.Sections) != 2 || *back.Sections[1] != *s {
						r.Violation("tdxmetadata/roundtrip", "tdxmetadata", "decode(encode(v)) != v", nil)
					}
					for n := 0; n < len(mb); n++ {
						if _, err := abi.TDXMetadataFromBytes(mb[:n]); err == nil {
							r.Violation("tdxmetadata/truncated-accepted", "tdxmetadata truncation", fmt.Sprintf("a %d-byte prefix of an 80-byte encoding was accepted", n), nil)
							break
						}
					}
					if m.Put(make([]byte, 79)) == nil {
						r.Violation("tdxmetadata/short-buffer-accepted", "short buffer", "TDXMetadata.Put accepted a short buffer", nil)
					}
					d.SectionCount = 3
					if m.Put(mb) == nil {
						r.Violation("tdxmetadata/count-mismatch-accepted", "count mismatch", "TDXMetadata.Put accepted a section count that differs from the section list", nil)
					}
					return fmt.Sprintf("%x", buf)
				})
			}
		}
	}
}

func vmsaCodec(r *mc.Run) {
	zero := make([]byte, sev.SizeofVmsa)
	if err := sev.PutVmsa(&spb.VmcbSaveArea{}, zero); err != nil || !bytes.Equal(zero, make([]byte, sev.SizeofVmsa)) || sev.SizeofVmsa != 0x670 {
		r.Violation("vmsa/zero", "vmsa zero", fmt.Sprintf("the empty save area does not encode to 0x670 zero bytes (err %v)", err), nil)
	}
	fields := (&spb.VmcbSaveArea{}).ProtoReflect().Descriptor().Fields()
	for _, f := range vmsaScalars {
		for _, v := range u64s {
			f, v := f, v
			check(r, fmt.Sprintf("vmsa scalar %s=%#x", f.name, v), func() string {
				m := &spb.VmcbSaveArea{}
				fd := fields.ByName(protoreflect.Name(f.name))
				if fd == nil {
					r.Degraded("vmsa field " + f.name + " not in the proto")
					return "skip"
				}
				val := v
				if f.width < 8 {
					val = v & (1<<(8*uint(f.width)) - 1)
				}
				if fd.Kind() == protoreflect.Uint32Kind {
					m.ProtoReflect().Set(fd, protoreflect.ValueOfUint32(uint32(val)))
				} else {
					m.ProtoReflect().Set(fd, protoreflect.ValueOfUint64(val))
				}
				out := bytes.Repeat([]byte{0xaa}, sev.SizeofVmsa)
				err := sev.PutVmsa(m, out)
				want := make([]byte, sev.SizeofVmsa)
				copy(want[f.off:], le(val, f.width))
				if err != nil || !bytes.Equal(out, want) {
					r.Violation("vmsa/field-offset/"+f.name, "vmsa "+f.name, fmt.Sprintf("field %s=%#x is not encoded as %d little-endian bytes at offset %#x (err %v)", f.name, val, f.width, f.off, err), nil)
				}
				return fmt.Sprintf("%#x@%#x", val, f.off)
			})
		}
	}
	// cpl out of range
	check(r, "vmsa cpl out-of-range", func() string {
		if sev.PutVmsa(&spb.VmcbSaveArea{Cpl: 256}, make([]byte, sev.SizeofVmsa)) == nil {
			r.Violation("vmsa/cpl-out-of-range-accepted", "vmsa cpl", "cpl 256 accepted", nil)
		}
		if sev.PutVmsa(&spb.VmcbSaveArea{}, make([]byte, sev.SizeofVmsa-1)) == nil {
			r.Violation("vmsa/short-buffer-accepted", "vmsa size", "a buffer one byte short was accepted", nil)
		}
		return "ok"
	})
	for _, s := range vmsaSegs {
		for _, sel := range []uint32{0, 1, 0xffff, 0x10000} {
			for _, lim := range u32s[:4] {
				for _, base := range u64s[:5] {
					s, sel, lim, base := s, sel, lim, base
					check(r, fmt.Sprintf("vmsa segment %s sel=%#x lim=%#x base=%#x", s.name, sel, lim, base), func() string {
						m := &spb.VmcbSaveArea{}
						seg := &spb.VmcbSeg{Selector: sel, Attrib: sel ^ 1, Limit: lim, Base: base}
						m.ProtoReflect().Set(fields.ByName(protoreflect.Name(s.name)), protoreflect.ValueOfMessage(seg.ProtoReflect()))
						out := make([]byte, sev.SizeofVmsa)
						err := sev.PutVmsa(m, out)
						if sel >= 0x10000 || sel^1 >= 0x10000 {
							if err == nil {
								r.Violation("vmsa/segment-out-of-range-accepted", "vmsa segment", "a 17-bit selector/attribute was accepted", nil)
							}
							return "rejected"
						}
						want := make([]byte, sev.SizeofVmsa)
						copy(want[s.off:], append(append(append(le(uint64(sel), 2), le(uint64(sel^1), 2)...), le(uint64(lim), 4)...), le(base, 8)...))
						if err != nil || !bytes.Equal(out, want) {
							r.Violation("vmsa/segment-layout/"+s.name, "vmsa segment "+s.name, fmt.Sprintf("segment %s is not {selector u16, attrib u16, limit u32, base u64} at %#x (err %v)", s.name, s.off, err), nil)
						}
						return "ok"
					})
				}
			}
		}
	}
	for _, s := range vmsaSegs {
		s := s
		check(r, fmt.Sprintf("vmsa segment %s attrib out-of-range", s.name), func() string {
			for _, bad := range []*spb.VmcbSeg{{Selector: 1, Attrib: 0x10000}, {Selector: 0x10000, Attrib: 1}, {Selector: 0, Attrib: 0xffffffff}} {
				m := &spb.VmcbSaveArea{}
				m.ProtoReflect().Set(fields.ByName(protoreflect.Name(s.name)), protoreflect.ValueOfMessage(bad.ProtoReflect()))
				if sev.PutVmsa(m, make([]byte, sev.SizeofVmsa)) == nil {
					r.Violation("vmsa/segment-out-of-range-accepted", "vmsa segment "+s.name, fmt.Sprintf("segment %s with selector %#x attrib %#x (17+ bits) accepted", s.name, bad.Selector, bad.Attrib), nil)
				}
			}
			return "rejected"
		})
	}
	for _, rv := range vmsaReserved {
		rv := rv
		fd := fields.ByName(protoreflect.Name(rv.name))
		set := func(b []byte) error {
			m := &spb.VmcbSaveArea{}
			m.ProtoReflect().Set(fd, protoreflect.ValueOfBytes(b))
			return sev.PutVmsa(m, make([]byte, sev.SizeofVmsa))
		}
		check(r, fmt.Sprintf("vmsa reserved %s zero-fill-documented-size", rv.name), func() string {
			if err := set(make([]byte, rv.width)); err != nil {
				r.Violation("vmsa/reserved-documented-size-refused/"+rv.name, "vmsa "+rv.name, fmt.Sprintf("%s of its documented size (%d zero bytes) is refused: %v", rv.name, rv.width, err), nil)
			}
			// the same explicit zero fill, encoded into a buffer that held other bytes before (a reused
			// page): the encoding is a function of the value, so the range reads zero afterwards and the
			// whole page equals the encoding of the empty value
			{
				m := &spb.VmcbSaveArea{}
				m.ProtoReflect().Set(fd, protoreflect.ValueOfBytes(make([]byte, rv.width)))
				out := bytes.Repeat([]byte{0xa5}, sev.SizeofVmsa)
				if err := sev.PutVmsa(m, out); err == nil {
					for i := rv.off; i < rv.off+rv.width; i++ {
						if out[i] != 0 {
							r.Violation("vmsa/explicit-zero-reserved-keeps-buffer-contents/"+rv.name, "vmsa "+rv.name, fmt.Sprintf("%s given as %d zero bytes and encoded into a used buffer: byte %#x reads %#x afterwards", rv.name, rv.width, i, out[i]), nil)
							break
						}
					}
				}
			}
			for _, n := range []int{rv.width - 1, rv.width + 1, rv.width + 8} {
				if n > 0 && set(make([]byte, n)) == nil {
					r.Violation("vmsa/reserved-wrong-size-accepted/"+rv.name, "vmsa "+rv.name, fmt.Sprintf("%s of %d bytes accepted (documented %d)", rv.name, n, rv.width), nil)
				}
			}
			return "ok"
		})
		for i := 0; i < rv.width; i++ {
			i := i
			check(r, fmt.Sprintf("vmsa reserved %s byte %d set", rv.name, i), func() string {
				b := make([]byte, rv.width)
				b[i] = 1
				if set(b) == nil {
					r.Violation("vmsa/reserved-nonzero-accepted/"+rv.name, "vmsa "+rv.name, fmt.Sprintf("non-zero byte %d of %s accepted", i, rv.name), nil)
				}
				return "rejected"
			})
		}
	}
	for _, name := range []string{"reserved_8", "reserved_9"} {
		name := name
		check(r, "vmsa "+name+" nonzero", func() string {
			m := &spb.VmcbSaveArea{}
			m.ProtoReflect().Set(fields.ByName(protoreflect.Name(name)), protoreflect.ValueOfUint64(1))
			if sev.PutVmsa(m, make([]byte, sev.SizeofVmsa)) == nil {
				r.Violation("vmsa/reserved-nonzero-accepted/"+name, "vmsa "+name, "non-zero "+name+" accepted", nil)
			}
			return "rejected"
		})
	}
}

func hobCodec(r *mc.Run) {
	for _, a := range u64s {
		for _, b := range u64s {
			for _, t := range u32s[:4] {
				a, b, t := a, b, t
				check(r, fmt.Sprintf("pi-hob a=%#x b=%#x t=%#x", a, b, t), func() string {
					var buf bytes.Buffer
					h := abi.EFIHOBResourceDescriptor{Header: abi.EFIHOBGenericHeader{HobType: abi.EFIHOBTypeResourceDescriptor, HobLength: abi.SizeofEFIHOBResourceDescriptor},
						Owner: abi.FromUUID(uuid.MustParse(guids[2])), ResourceType: abi.EFIResourceType(t), ResourceAttribute: abi.EFIResourceAttributeType(t ^ 7), PhysicalStart: abi.EFIPhysicalAddress(a), ResourceLength: b}
					n, err := h.WriteTo(&buf)
					og := ref.EfiGUID(guids[2])
					want := append(append(append(append(append(append(le(3, 2), le(48, 2)...), le(0, 4)...), og[:]...), le(uint64(t), 4)...), le(uint64(t^7), 4)...), append(le(a, 8), le(b, 8)...)...)
					if err != nil || n != 48 || !bytes.Equal(buf.Bytes(), want) {
						r.Violation("hob/resource-descriptor-layout", "resource descriptor", fmt.Sprintf("EFI_HOB_RESOURCE_DESCRIPTOR encoding differs from the PI layout: %x vs %x", buf.Bytes(), want), nil)
					}
					buf.Reset()
					p := abi.EFIHOBHandoffInfoTable{Header: abi.EFIHOBGenericHeader{HobType: abi.EFIHOBTypeHandoff, HobLength: abi.SizeOfEFIHOBHandoffInfoTable}, Version: t, BootMode: abi.EFIBootMode(t ^ 1),
						EfiMemoryTop: abi.EFIPhysicalAddress(a), EfiMemoryBottom: abi.EFIPhysicalAddress(b), EfiFreeMemoryTop: abi.EFIPhysicalAddress(^a), EfiFreeMemoryBottom: abi.EFIPhysicalAddress(^b), EfiEndOfHobList: abi.EFIPhysicalAddress(a ^ b)}
					n, err = p.WriteTo(&buf)
					wantp := append(append(append(append(le(1, 2), le(56, 2)...), le(0, 4)...), append(le(uint64(t), 4), le(uint64(t^1), 4)...)...), append(append(append(append(le(a, 8), le(b, 8)...), le(^a, 8)...), le(^b, 8)...), le(a^b, 8)...)...)
					if err != nil || n != 56 || !bytes.Equal(buf.Bytes(), wantp) {
						r.Violation("hob/handoff-table-layout", "handoff table", "EFI_HOB_HANDOFF_INFO_TABLE encoding differs from the PI layout", nil)
					}
					return "ok"
				})
			}
		}
	}
	for n := 0; n <= 17; n++ {
		n := n
		check(r, fmt.Sprintf("pi-hob guid-extension data-len=%d", n), func() string {
			data := bytes.Repeat([]byte{0x5a}, n)
			h, err := abi.CreateEFIHOBGUID(uuid.MustParse(guids[3]), append([]byte(nil), data...))
			if err != nil {
				r.Violation("hob/guid-hob-create", "guid hob", err.Error(), nil)
				return "err"
			}
			var buf bytes.Buffer
			wn, err := h.WriteTo(&buf)
			padded := (n + 7) &^ 7
			og := ref.EfiGUID(guids[3])
			want := append(append(append(append(le(4, 2), le(uint64(24+padded), 2)...), le(0, 4)...), og[:]...), append(data, make([]byte, padded-n)...)...)
			if err != nil || int(wn) != 24+padded || !bytes.Equal(buf.Bytes(), want) {
				r.Violation("hob/guid-hob-layout", "guid hob", fmt.Sprintf("EFI_HOB_GUID_TYPE with %d data bytes is not header+guid+data padded to 8 (%x)", n, buf.Bytes()), nil)
			}
			return "ok"
		})
	}
}

func eventCodecs(r *mc.Run) {
	strs := []string{"", "a", "Google, Inc.", strings.Repeat("x", 254)}
	locs := [][]byte{nil, {1}, bytes.Repeat([]byte{7}, 300)}
	richEvent, err := (&eventlog.SP800155Event3{PlatformManufacturerID: 0x11223344, ReferenceManifestGUID: eventlog.EfiGUID{UUID: uuid.MustParse(guids[1])},
		PlatformManufacturerStr: eventlog.ByteSizedCStr{Data: strings.Repeat("R", 200)}, PlatformModel: eventlog.ByteSizedCStr{Data: strings.Repeat("S", 100)}, PlatformVersion: eventlog.ByteSizedCStr{Data: "rich"},
		FirmwareManufacturerStr: eventlog.ByteSizedCStr{Data: strings.Repeat("T", 50)}, FirmwareManufacturerID: 0x55667788, FirmwareVersion: eventlog.ByteSizedCStr{Data: "9.9.9"},
		RIMLocatorType: 2, RIMLocator: eventlog.Uint32SizedArray{Data: bytes.Repeat([]byte{0xAA}, 500)}, PlatformCertLocatorType: 3, PlatformCertLocator: eventlog.Uint32SizedArray{Data: bytes.Repeat([]byte{0xBB}, 400)}}).MarshalToBytes()
	if err != nil {
		mc.Fatal("rich event: %v", err)
	}
	for _, s1 := range strs {
		for _, s2 := range strs[:3] {
			for _, loc := range locs {
				for _, id := range u32s[:3] {
					s1, s2, loc, id := s1, s2, loc, id
					check(r, fmt.Sprintf("sp800155 s1=%d s2=%d loc=%d id=%#x", len(s1), len(s2), len(loc), id), func() string {
						ev := &eventlog.SP800155Event3{PlatformManufacturerID: id, ReferenceManifestGUID: eventlog.EfiGUID{UUID: uuid.MustParse(guids[2])},
							PlatformManufacturerStr: eventlog.ByteSizedCStr{Data: s1}, PlatformModel: eventlog.ByteSizedCStr{Data: s2}, PlatformVersion: eventlog.ByteSizedCStr{Data: ""},
							FirmwareManufacturerStr: eventlog.ByteSizedCStr{Data: s2}, FirmwareManufacturerID: id ^ 1, FirmwareVersion: eventlog.ByteSizedCStr{Data: "2.7"},
							RIMLocatorType: id % 4, RIMLocator: eventlog.Uint32SizedArray{Data: loc}, PlatformCertLocatorType: 1, PlatformCertLocator: eventlog.Uint32SizedArray{Data: loc}}
						enc, err := ev.MarshalToBytes()
						if err != nil {
							r.Violation("sp800155/marshal", "sp800155", err.Error(), nil)
							return "err"
						}
						// independent encoding
						var w []byte
						w = append(w, "SP800-155 Event3"...)
						w = append(w, le(uint64(id), 4)...)
						g := ref.EfiGUID(guids[2])
						w = append(w, g[:]...)
						cstr := func(s string) { w = append(append(append(w, byte(len(s)+1)), s...), 0) }
						cstr(s1)
						cstr(s2)
						cstr("")
						cstr(s2)
						w = append(w, le(uint64(id^1), 4)...)
						cstr("2.7")
						w = append(w, le(uint64(id%4), 4)...)
						w = append(append(w, le(uint64(len(loc)), 4)...), loc...)
						w = append(w, le(1, 4)...)
						w = append(append(w, le(uint64(len(loc)), 4)...), loc...)
						if !bytes.Equal(enc, w) {
							r.Violation("sp800155/layout", "sp800155", "SP800-155 Event3 encoding differs from the PFP layout", nil)
						}
						body := enc[16:]
						back := &eventlog.SP800155Event3{}
						if err := back.UnmarshalFromBytes(body); err != nil || !sameEvent(back, ev) {
							r.Violation("sp800155/roundtrip", "sp800155", fmt.Sprintf("decode(encode(v)) != v (%v)", err), nil)
						}
						// decoding into a value that was decoded into before (a reused scratch struct) gives
						// the same result as decoding into a fresh one
						used := &eventlog.SP800155Event3{}
						if err := used.UnmarshalFromBytes(richEvent[16:]); err != nil {
							mc.Fatal("rich event does not decode: %v", err)
						}
						if err := used.UnmarshalFromBytes(body); err != nil || !sameEvent(used, ev) {
							r.Violation("sp800155/decode-into-used-value-differs", "sp800155", fmt.Sprintf("decoding into a value that held another event gives a different result than decoding into a fresh one (%v)", err), nil)
						} else if re, _ := used.MarshalToBytes(); !bytes.Equal(re, enc) {
							r.Violation("sp800155/decode-into-used-value-differs", "sp800155", "an event decoded into a used value re-encodes to different bytes", nil)
						}
						// zero padding 0..8 is tolerated and re-encodes to the unpadded bytes; other trailing bytes are refused
						for pad := 0; pad <= 8; pad++ {
							b2 := &eventlog.SP800155Event3{}
							if err := b2.UnmarshalFromBytes(append(append([]byte(nil), body...), make([]byte, pad)...)); err != nil {
								r.Outcome("sp800155:zero-padding-refused") // refusing padding is allowed; the unpadded round trip is judged above
							} else if re, _ := b2.MarshalToBytes(); !bytes.Equal(re, enc) {
								r.Violation("sp800155/reencode-differs", "sp800155 padding", "an accepted padded event does not re-encode to the unpadded bytes", nil)
							}
						}
						if (&eventlog.SP800155Event3{}).UnmarshalFromBytes(append(append([]byte(nil), body...), 1)) == nil {
							r.Violation("sp800155/trailing-garbage-accepted", "sp800155 trailing", "a non-zero trailing byte was accepted", nil)
						}
						// every truncation must be refused (never silently completed)
						for n := 0; n < len(body); n++ {
							b3 := &eventlog.SP800155Event3{}
							if err := b3.UnmarshalFromBytes(body[:n]); err == nil {
								r.Violation("sp800155/truncated-accepted", "sp800155 truncation", fmt.Sprintf("a %d-byte prefix of a %d-byte event was accepted (silently completed)", n, len(body)), nil)
								break
							}
						}
						return fmt.Sprint(len(enc))
					})
				}
			}
		}
	}
	// Crypto-agile log: header + events; every truncation is refused or decodes to a log that re-encodes to exactly that prefix.
	mk := func(nEvents int, payload []byte) []byte {
		l := &eventlog.CryptoAgileLog{Header: eventlog.TCGPCClientPCREvent{PCRIndex: 0, EventType: 3, EventData: eventlog.TCGEventData{Event: &eventlog.UnknownEvent{Data: []byte("Spec ID Event03\x00")}}}}
		for i := 0; i < nEvents; i++ {
			l.Events = append(l.Events, &eventlog.TCGPCREvent2{PCRIndex: uint32(i), EventType: 0x80000001,
				Digests:   eventlog.Uint32SizedArrayT[*eventlog.TaggedDigest]{Array: []*eventlog.TaggedDigest{{AlgID: 4, Digest: bytes.Repeat([]byte{1}, 20)}, {AlgID: 0xb, Digest: bytes.Repeat([]byte{2}, 32)}, {AlgID: 0xc, Digest: bytes.Repeat([]byte{3}, 48)}}},
				EventData: eventlog.TCGEventData{Event: &eventlog.UnknownEvent{Data: payload}}})
		}
		var buf bytes.Buffer
		if err := l.Marshal(&buf); err != nil {
			mc.Fatal("marshal log: %v", err)
		}
		return buf.Bytes()
	}
	for _, n := range []int{0, 1, 2} {
		for _, pl := range [][]byte{nil, {9}, bytes.Repeat([]byte{8}, 40)} {
			enc := mk(n, pl)
			n, pl := n, pl
			check(r, fmt.Sprintf("tcg-log events=%d payload=%d", n, len(pl)), func() string {
				l := &eventlog.CryptoAgileLog{}
				if err := l.Unmarshal(bytes.NewReader(enc)); err != nil || len(l.Events) != n {
					r.Violation("tcglog/roundtrip", "tcg log", fmt.Sprintf("decode(encode(log)) fails or loses events: %v", err), nil)
					return "err"
				}
				var re bytes.Buffer
				if err := l.Marshal(&re); err != nil || !bytes.Equal(re.Bytes(), enc) {
					r.Violation("tcglog/reencode-differs", "tcg log", "decode then encode does not reproduce the bytes", nil)
				}
				// (Decoding a log into a value that already holds events appends to them on the current
				// tree; the statement does not say what a reused log value should hold, so that is not
				// judged. Events and sized arrays, which replace their contents, are judged above/below.)
				for k := 0; k < len(enc); k++ {
					t := &eventlog.CryptoAgileLog{}
					if err := t.Unmarshal(bytes.NewReader(enc[:k])); err == nil {
						var b bytes.Buffer
						t.Marshal(&b)
						if !bytes.Equal(b.Bytes(), enc[:k]) {
							r.Violation("tcglog/truncated-accepted", fmt.Sprintf("tcg-log events=%d payload=%d cut=%d", n, len(pl), k), fmt.Sprintf("a log cut at byte %d of %d is accepted and re-encodes to %d bytes (events silently dropped or completed)", k, len(enc), b.Len()), nil)
							break
						}
					}
				}
				return fmt.Sprint(len(enc))
			})
		}
	}
	// The tools read TCG logs from a file: what the encoder produced must decode through that path
	// too, also when the log spans several 4 KiB blocks and a field falls across a block boundary.
	// The log ends in a raw-locator event of the tool's own manufacturer; reading it back through
	// extract.Endorsement is the decode (the locator bytes come back only if the whole log parsed).
	{
		dir := filepath.Join(kmfx.ScratchRoot(), "c18-logs")
		os.MkdirAll(dir, 0o755)
		blob := []byte("the bytes behind the raw locator")
		ev3 := func(man string, loc []byte) *eventlog.SP800155Event3 {
			return &eventlog.SP800155Event3{PlatformManufacturerID: 11129, ReferenceManifestGUID: eventlog.EfiGUID{UUID: uuid.MustParse(guids[2])},
				PlatformManufacturerStr: eventlog.ByteSizedCStr{Data: man}, PlatformModel: eventlog.ByteSizedCStr{Data: "m"}, FirmwareManufacturerStr: eventlog.ByteSizedCStr{Data: man},
				FirmwareManufacturerID: 11129, FirmwareVersion: eventlog.ByteSizedCStr{Data: "2.7"}, RIMLocatorType: eventlog.RIMLocationRaw, RIMLocator: eventlog.Uint32SizedArray{Data: loc}}
		}
		// two families: several 4 KiB blocks (51 foreign events, every alignment of 64), and more than
		// 64 KiB (430 foreign events, alignments over 256 bytes - longer than one event)
		type family struct {
			name               string
			fill, shifts, step int
			atLeast            int
		}
		fams := []family{{"several", 50, 64, 1, 8 << 10}, {"beyond-64KiB", 430, 256, mc.Pick(r, 4, 1), 70 << 10}}
		for _, fam := range fams {
			for shift := 0; shift < fam.shifts; shift += fam.step {
				shift, fam := shift, fam
				check(r, fmt.Sprintf("tcg-log-file blocks=%s shift=%d", fam.name, shift), func() string {
					l := &eventlog.CryptoAgileLog{Header: eventlog.TCGPCClientPCREvent{EventType: eventlog.EvNoAction, EventData: eventlog.TCGEventData{Event: &eventlog.UnknownEvent{Data: []byte("Spec ID Event03\x00")}}}}
					add := func(e *eventlog.SP800155Event3) {
						l.Events = append(l.Events, &eventlog.TCGPCREvent2{EventType: eventlog.EvNoAction,
							Digests:   eventlog.Uint32SizedArrayT[*eventlog.TaggedDigest]{Array: []*eventlog.TaggedDigest{{AlgID: 4, Digest: bytes.Repeat([]byte{1}, 20)}, {AlgID: 0xb, Digest: bytes.Repeat([]byte{2}, 32)}, {AlgID: 0xc, Digest: bytes.Repeat([]byte{3}, 48)}}},
							EventData: eventlog.TCGEventData{Event: e}})
					}
					add(ev3("Filler Corp", bytes.Repeat([]byte{0xF1}, shift)))
					for i := 0; i < fam.fill; i++ {
						add(ev3("Filler Corp", []byte("filler")))
					}
					add(ev3(extract.GCEFirmwareManufacturer, blob))
					var enc bytes.Buffer
					if err := l.Marshal(&enc); err != nil {
						r.Violation("tcglog-file/marshal", "tcg log file", err.Error(), nil)
						return "err"
					}
					if enc.Len() < fam.atLeast {
						mc.Fatal("log family %s: only %d bytes", fam.name, enc.Len())
					}
					mem := &eventlog.CryptoAgileLog{}
					if err := mem.Unmarshal(bytes.NewReader(enc.Bytes())); err != nil || len(mem.Events) != len(l.Events) {
						r.Violation("tcglog/roundtrip", "tcg log", fmt.Sprintf("a %d-byte log does not decode from memory: %v", enc.Len(), err), nil)
						return "err"
					}
					p := filepath.Join(dir, fmt.Sprintf("log-%s-%d.bin", fam.name, shift))
					os.WriteFile(p, enc.Bytes(), 0o644)
					got, err := extract.Endorsement(&extract.Options{EventLogLocation: p, FirmwareManufacturer: extract.GCEFirmwareManufacturer})
					if err != nil || !bytes.Equal(got, blob) {
						r.Violation("tcglog-file/encoded-log-not-decoded-from-file", "tcg log file", fmt.Sprintf("a %d-byte log the encoder produced (it decodes from memory) is not decoded when read from a file: %v", enc.Len(), err), nil)
					}
					os.Remove(p)
					return fmt.Sprint(enc.Len())
				})
			}
		}
	}
	// Size-prefixed primitives.
	for _, s := range strs {
		s := s
		check(r, fmt.Sprintf("cstr len=%d", len(s)), func() string {
			var buf bytes.Buffer
			c := &eventlog.ByteSizedCStr{Data: s}
			if err := c.Marshal(&buf); err != nil {
				r.Violation("cstr/marshal", "cstr", err.Error(), nil)
				return "err"
			}
			want := append(append([]byte{byte(len(s) + 1)}, s...), 0)
			if !bytes.Equal(buf.Bytes(), want) {
				r.Violation("cstr/layout", "cstr", "ByteSizedCStr is not {size u8, bytes, NUL}", nil)
			}
			for k := 0; k < len(want); k++ {
				if (&eventlog.ByteSizedCStr{}).Unmarshal(bytes.NewReader(want[:k])) == nil {
					r.Violation("cstr/truncated-accepted", "cstr truncation", fmt.Sprintf("a %d-byte prefix of a %d-byte string was accepted", k, len(want)), nil)
					break
				}
			}
			return "ok"
		})
	}
	for _, d := range [][]byte{nil, {1}, bytes.Repeat([]byte{5}, 70)} {
		d := d
		check(r, fmt.Sprintf("u32array len=%d into-used-value", len(d)), func() string {
			var enc bytes.Buffer
			if err := (&eventlog.Uint32SizedArray{Data: d}).Marshal(&enc); err != nil {
				r.Violation("u32array/marshal", "u32array", err.Error(), nil)
				return "err"
			}
			want := append(le(uint64(len(d)), 4), d...)
			if !bytes.Equal(enc.Bytes(), want) {
				r.Violation("u32array/layout", "u32array", "Uint32SizedArray is not {size u32, bytes}", nil)
			}
			for _, prior := range [][]byte{nil, []byte("abc"), bytes.Repeat([]byte{9}, 100)} {
				a := &eventlog.Uint32SizedArray{}
				a.Unmarshal(bytes.NewReader(append(le(uint64(len(prior)), 4), prior...)))
				var re bytes.Buffer
				if err := a.Unmarshal(bytes.NewReader(want)); err != nil || !bytes.Equal(a.Data, d) {
					r.Violation("u32array/decode-into-used-value-differs", "u32array", fmt.Sprintf("decoding %d bytes into a value that held %d bytes yields %d bytes (%v)", len(d), len(prior), len(a.Data), err), nil)
				} else if a.Marshal(&re); !bytes.Equal(re.Bytes(), want) {
					r.Violation("u32array/decode-into-used-value-differs", "u32array", "re-encoding differs", nil)
				}
			}
			return "ok"
		})
	}
	check(r, "cstr too-long", func() string {
		if (&eventlog.ByteSizedCStr{Data: strings.Repeat("x", 255)}).Marshal(&bytes.Buffer{}) == nil {
			r.Violation("cstr/too-long-accepted", "cstr", "a 255-character string (256 with terminator) was encoded", nil)
		}
		return "ok"
	})
}

func sameEvent(a, b *eventlog.SP800155Event3) bool {
	x, _ := a.MarshalToBytes()
	y, _ := b.MarshalToBytes()
	return bytes.Equal(x, y) && a.PlatformManufacturerStr.Data == b.PlatformManufacturerStr.Data && a.RIMLocatorType == b.RIMLocatorType && bytes.Equal(a.RIMLocator.Data, b.RIMLocator.Data)
}
