// C01 — accepted endorsements are authentic: signature, chain and time.
//
// Engine E5: a genuine endorsement (made by the real pipeline) plus a menu of deviations of
// payload, signature, certificate, root set and verification time, enumerated over every
// verification entry point; accept => authentic per an independent reference verifier built on
// crypto/rsa + crypto/x509 only.
package main

import (
	"context"
	"crypto"
	"crypto/rand"
	"crypto/rsa"
	"crypto/sha256"
	"crypto/sha512"
	"crypto/x509"
	"crypto/x509/pkix"
	"encoding/pem"
	"fmt"
	"math/big"
	"strings"
	"time"

	"github.com/google/gce-tcb-verifier/cmd/output"
	"github.com/google/gce-tcb-verifier/gcetcbendorsement"
	epb "github.com/google/gce-tcb-verifier/proto/endorsement"
	sops "github.com/google/gce-tcb-verifier/sign/ops"
	"github.com/google/gce-tcb-verifier/verify"
	"github.com/google/go-sev-guest/abi"
	cpb "github.com/google/go-sev-guest/proto/check"
	tpmpb "github.com/google/go-tpm-tools/proto/attest"
	"google.golang.org/protobuf/proto"

	"verifharness/att"
	"verifharness/fx"
	"verifharness/mc"
	"verifharness/rpcli"
)

type variant struct {
	name string
	end  *epb.VMLaunchEndorsement
	bin  []byte
}

type rootSet struct {
	name string
	pool func() *x509.CertPool
	pem  []byte // for the CLI (nil => cannot be expressed)
}

type vtime struct {
	name string
	t    time.Time
}

type getter struct{ body []byte }

func (g *getter) Get(string) ([]byte, error) { return g.body, nil }

var (
	m1        = att.Meas(0x11)
	quoteMrtd []byte
)

// authentic is the reference: signature over exactly the carried payload by the embedded
// certificate's key, certificate chains to roots and is valid at now.
func authentic(e *epb.VMLaunchEndorsement, roots *x509.CertPool, now time.Time, chainAndTime bool) (bool, string) {
	if e == nil {
		return false, "nil endorsement"
	}
	g := &epb.VMGoldenMeasurement{}
	if err := proto.Unmarshal(e.SerializedUefiGolden, g); err != nil {
		return false, "payload unparseable"
	}
	cert, err := x509.ParseCertificate(g.Cert)
	if err != nil {
		return false, "certificate unparseable"
	}
	pub, ok := cert.PublicKey.(*rsa.PublicKey)
	if !ok {
		return false, "not an RSA key"
	}
	d := sha256.Sum256(e.SerializedUefiGolden)
	if err := rsa.VerifyPSS(pub, crypto.SHA256, d[:], e.Signature, &rsa.PSSOptions{SaltLength: rsa.PSSSaltLengthAuto, Hash: crypto.SHA256}); err != nil {
		return false, "signature invalid"
	}
	if !chainAndTime {
		return true, "signature valid"
	}
	if roots == nil {
		return false, "no roots"
	}
	if _, err := cert.Verify(x509.VerifyOptions{Roots: roots, CurrentTime: now, KeyUsages: []x509.ExtKeyUsage{x509.ExtKeyUsageAny}}); err != nil {
		return false, "chain/time invalid"
	}
	return true, "authentic"
}

func mk(name string, payload, sig []byte) variant {
	e := &epb.VMLaunchEndorsement{SerializedUefiGolden: payload, Signature: sig}
	b, _ := proto.Marshal(e)
	return variant{name, e, b}
}

func pss(key *rsa.PrivateKey, h crypto.Hash, salt int, msg []byte) []byte {
	hh := h.New()
	hh.Write(msg)
	s, err := rsa.SignPSS(rand.Reader, key, h, hh.Sum(nil), &rsa.PSSOptions{SaltLength: salt, Hash: h})
	if err != nil {
		panic(err)
	}
	return s
}

func selfSigned(key *rsa.PrivateKey, subj pkix.Name, nb time.Time) []byte {
	t := &x509.Certificate{SerialNumber: big.NewInt(2), Subject: subj, NotBefore: nb, NotAfter: nb.Add(5 * 365 * 24 * time.Hour),
		KeyUsage: x509.KeyUsageDigitalSignature, SignatureAlgorithm: x509.SHA256WithRSAPSS}
	der, err := x509.CreateCertificate(rand.Reader, t, t, &key.PublicKey, key)
	if err != nil {
		panic(err)
	}
	return der
}

func main() {
	r := mc.NewRun("C01")
	r.Rule("E5 deviation lattice over a genuine endorsement: every signature bit; payload bits (every 8th quick, every bit thorough); signature replaced (truncated, extended, empty, zero, PKCS#1v1.5, PSS-SHA384, PSS salt 0/max, signed by sibling / foreign / root key); certificate replaced with consistent re-signing (sibling, foreign, self-signed same subject, root itself, garbage, empty, issued with other signature algorithms, look-alike chains); x root sets {nil, empty, right, foreign, right+foreign, leaf-as-root} x times {NotBefore-1s, NotBefore, mid, NotAfter, NotAfter+1s, zero, mid +/- 2^64 ns, mid + 2*2^64 ns, year 1, year 9999} x 16 entry points (two with a second, genuine source present); the first six times again in the wall-clock epoch; two-call sessions (genuine first, then a deviation, same verifier objects); present-time sessions; non-trivial = distinct accepted authentic cases plus distinct (entry point, rejection class)")
	r.Assume("unforgeability beyond the enumerated deviation classes rests on RSA-PSS/SHA-256")
	r.Assume("reference verifier: crypto/rsa.VerifyPSS (any salt length) and crypto/x509 chain building, used directly")
	A, err := fx.NewAuthorityWithSibling(fx.T0, "c01a")
	if err != nil {
		mc.Fatal("%v", err)
	}
	F, err := fx.NewAuthority(fx.T0, "c01f")
	if err != nil {
		mc.Fatal("%v", err)
	}
	quoteMrtd = att.TdxQuote(nil)[att.MrtdOffset : att.MrtdOffset+48]
	base := att.Golden(map[uint32][]byte{1: m1}, m1, true, []att.TdxRow{{0, false, quoteMrtd}}, true, fx.T0)
	genuine, err := A.SignGolden(proto.Clone(base).(*epb.VMGoldenMeasurement), fx.T0)
	if err != nil {
		mc.Fatal("%v", err)
	}
	payload, sig := genuine.SerializedUefiGolden, genuine.Signature
	genuineBin, _ := proto.Marshal(genuine)
	signed := &epb.VMGoldenMeasurement{}
	proto.Unmarshal(payload, signed)
	withCert := func(cert []byte) []byte {
		g := proto.Clone(signed).(*epb.VMGoldenMeasurement)
		g.Cert = cert
		b, _ := proto.Marshal(g)
		return b
	}
	sign := func(key *rsa.PrivateKey, msg []byte) []byte {
		return pss(key, crypto.SHA256, rsa.PSSSaltLengthEqualsHash, msg)
	}
	d256 := sha256.Sum256(payload)
	pkcs, _ := rsa.SignPKCS1v15(rand.Reader, A.SignKey, crypto.SHA256, d256[:])
	selfDer := selfSigned(A.SiblingKey, A.SignCert.Subject, fx.T0)

	structural := []variant{
		mk("genuine", payload, sig),
		mk("sig-truncated", payload, sig[:len(sig)-1]),
		mk("sig-extended", payload, append(append([]byte(nil), sig...), 0)),
		mk("sig-empty", payload, []byte{}),
		mk("sig-nil", payload, nil),
		mk("sig-zero", payload, make([]byte, len(sig))),
		mk("sig-pkcs1v15", payload, pkcs),
		mk("sig-pss-sha384", payload, pss(A.SignKey, crypto.SHA384, rsa.PSSSaltLengthEqualsHash, payload)),
		mk("sig-pss-salt0", payload, pss(A.SignKey, crypto.SHA256, 0, payload)),
		mk("sig-pss-saltmax", payload, pss(A.SignKey, crypto.SHA256, rsa.PSSSaltLengthAuto, payload)),
		mk("sig-by-sibling-key", payload, sign(A.SiblingKey, payload)),
		mk("sig-by-foreign-key", payload, sign(F.SignKey, payload)),
		mk("sig-by-root-key", payload, sign(A.RootKey, payload)),
		mk("payload-truncated", payload[:len(payload)-1], sig),
		mk("payload-extended", append(append([]byte(nil), payload...), 0x00), sig),
		mk("payload-empty", nil, sig),
	}
	for _, cv := range []struct {
		name string
		cert []byte
		key  *rsa.PrivateKey
	}{
		{"cert-sibling-signed-by-primary", A.SiblingCert.Raw, A.SignKey},
		{"cert-sibling-signed-by-sibling", A.SiblingCert.Raw, A.SiblingKey},
		{"cert-foreign-signed-by-foreign", F.SignCert.Raw, F.SignKey},
		{"cert-foreign-signed-by-primary", F.SignCert.Raw, A.SignKey},
		{"cert-selfsigned-same-subject", selfDer, A.SiblingKey},
		{"cert-root-signed-by-root", A.RootCert.Raw, A.RootKey},
		{"cert-foreign-root-signed-by-foreign-root", F.RootCert.Raw, F.RootKey},
		{"cert-garbage", []byte{0x30, 0x03, 0x02, 0x01, 0x01}, A.SignKey},
		{"cert-empty", nil, A.SignKey},
		{"cert-truncated", A.SignCert.Raw[:len(A.SignCert.Raw)-1], A.SignKey},
	} {
		p := withCert(cv.cert)
		structural = append(structural, mk(cv.name, p, sign(cv.key, p)))
	}
	// Look-alike chains: a certificate that copies the genuine signing certificate's subject, issuer
	// name, serial number and validity but carries another key, issued by (a) a self-made root that
	// copies the genuine root's names and serial, (b) nobody (self-signed under the copied names).
	// Nothing but the signature over the certificate distinguishes these from the genuine one.
	{
		fakeRootKey := F.RootKey
		rt := &x509.Certificate{SerialNumber: A.RootCert.SerialNumber, Subject: A.RootCert.Subject, Issuer: A.RootCert.Subject,
			NotBefore: A.RootCert.NotBefore, NotAfter: A.RootCert.NotAfter, IsCA: true, BasicConstraintsValid: true,
			KeyUsage: x509.KeyUsageCertSign, SignatureAlgorithm: x509.SHA256WithRSAPSS, SubjectKeyId: A.RootCert.SubjectKeyId}
		fakeRootDer, err := x509.CreateCertificate(rand.Reader, rt, rt, &fakeRootKey.PublicKey, fakeRootKey)
		if err != nil {
			mc.Fatal("look-alike root: %v", err)
		}
		fakeRoot, _ := x509.ParseCertificate(fakeRootDer)
		lt := &x509.Certificate{SerialNumber: A.SignCert.SerialNumber, Subject: A.SignCert.Subject,
			NotBefore: A.SignCert.NotBefore, NotAfter: A.SignCert.NotAfter, KeyUsage: A.SignCert.KeyUsage,
			SignatureAlgorithm: x509.SHA256WithRSAPSS, AuthorityKeyId: A.SignCert.AuthorityKeyId}
		for _, la := range []struct {
			name   string
			parent *x509.Certificate
			key    *rsa.PrivateKey
		}{{"cert-lookalike-from-lookalike-root", fakeRoot, fakeRootKey}, {"cert-lookalike-signed-by-own-key", lt, A.SiblingKey}} {
			der, err := x509.CreateCertificate(rand.Reader, lt, la.parent, &A.SiblingKey.PublicKey, la.key)
			if err != nil {
				mc.Fatal("look-alike leaf: %v", err)
			}
			pl := withCert(der)
			structural = append(structural, mk(la.name, pl, sign(A.SiblingKey, pl)))
		}
	}
	// Certificates for the sibling key issued by the genuine root with another signature algorithm,
	// and the endorsement signed by that key with the very same algorithm: chain and key are fine,
	// only the endorsement signature scheme is not RSA-PSS/SHA-256.
	for _, alt := range []struct {
		name string
		alg  x509.SignatureAlgorithm
		sign func(msg []byte) []byte
	}{
		{"issuer-alg-pkcs1v15-sha256", x509.SHA256WithRSA, func(m []byte) []byte {
			d := sha256.Sum256(m)
			s, _ := rsa.SignPKCS1v15(rand.Reader, A.SiblingKey, crypto.SHA256, d[:])
			return s
		}},
		{"issuer-alg-pkcs1v15-sha512", x509.SHA512WithRSA, func(m []byte) []byte {
			d := sha512.Sum512(m)
			s, _ := rsa.SignPKCS1v15(rand.Reader, A.SiblingKey, crypto.SHA512, d[:])
			return s
		}},
		{"issuer-alg-pss-sha384", x509.SHA384WithRSAPSS, func(m []byte) []byte {
			return pss(A.SiblingKey, crypto.SHA384, rsa.PSSSaltLengthEqualsHash, m)
		}},
	} {
		t := &x509.Certificate{SerialNumber: big.NewInt(9), Subject: A.SiblingCert.Subject, NotBefore: fx.T0, NotAfter: A.SignCert.NotAfter,
			KeyUsage: x509.KeyUsageDigitalSignature, SignatureAlgorithm: alt.alg}
		der, err := x509.CreateCertificate(rand.Reader, t, A.RootCert, &A.SiblingKey.PublicKey, A.RootKey)
		if err != nil {
			mc.Fatal("alt cert: %v", err)
		}
		p := withCert(der)
		structural = append(structural, mk("cert-"+alt.name+"+sig-same-alg", p, alt.sign(p)))
		structural = append(structural, mk("cert-"+alt.name+"+sig-pss-sha256", p, sign(A.SiblingKey, p)))
	}
	// A re-signed payload with a changed measurement but the original signature, and re-signed properly.
	{
		g := proto.Clone(signed).(*epb.VMGoldenMeasurement)
		g.SevSnp.Measurements[1] = att.Meas(0x66)
		b, _ := proto.Marshal(g)
		structural = append(structural, mk("payload-other-measurement-old-sig", b, sig))
	}

	pool := func(certs ...*x509.Certificate) func() *x509.CertPool {
		return func() *x509.CertPool {
			p := x509.NewCertPool()
			for _, c := range certs {
				p.AddCert(c)
			}
			return p
		}
	}
	pemOf := func(certs ...*x509.Certificate) []byte {
		var out []byte
		for _, c := range certs {
			out = append(out, pem.EncodeToMemory(&pem.Block{Type: "CERTIFICATE", Bytes: c.Raw})...)
		}
		return out
	}
	roots := []rootSet{
		{"right", pool(A.RootCert), pemOf(A.RootCert)},
		{"nil", func() *x509.CertPool { return nil }, nil},
		{"empty", pool(), nil},
		{"foreign", pool(F.RootCert), pemOf(F.RootCert)},
		{"right+foreign", pool(A.RootCert, F.RootCert), pemOf(A.RootCert, F.RootCert)},
		{"leaf-as-root", pool(A.SignCert), pemOf(A.SignCert)},
	}
	nb, na := A.SignCert.NotBefore, A.SignCert.NotAfter
	times := []vtime{
		{"mid", nb.Add(na.Sub(nb) / 2)},
		{"NotBefore-1s", nb.Add(-time.Second)},
		{"NotBefore", nb},
		{"NotAfter", na},
		{"NotAfter+1s", na.Add(time.Second)},
		{"zero-time", time.Time{}},
	}
	// Instants far outside the range an int64 of nanoseconds since 1970 can hold (1678..2262): a
	// verifier that folds the caller's time through such a count checks at another instant. mid ± 2^64
	// ns fold back exactly into the validity window; years 1 and 9999 are the ends of what a textual
	// timestamp can carry.
	{
		mid := nb.Add(na.Sub(nb) / 2)
		const wrapSec, wrapNsec = 18446744073, 709551616 // 2^64 ns
		times = append(times,
			vtime{"mid+2^64ns", time.Unix(mid.Unix()+wrapSec, int64(mid.Nanosecond())+wrapNsec).UTC()},
			vtime{"mid-2^64ns", time.Unix(mid.Unix()-wrapSec, int64(mid.Nanosecond())-wrapNsec).UTC()},
			vtime{"mid+2*2^64ns", time.Unix(mid.Unix()+2*wrapSec, int64(mid.Nanosecond())+2*wrapNsec).UTC()},
			vtime{"year-1", time.Date(1, 1, 2, 0, 0, 0, 0, time.UTC)},
			vtime{"year-9999", time.Date(9999, 12, 30, 0, 0, 0, 0, time.UTC)},
		)
	}

	ctx := output.NewContext(context.Background(), &output.Options{Quiet: true})
	prodPolicy := abi.SnpPolicyToBytes(abi.SnpPolicy{SMT: true, MigrateMA: true})
	base64policy := func() *cpb.Policy { return &cpb.Policy{MinimumVersion: "0.0", Policy: prodPolicy} }
	d384 := sha512.Sum384(nil)
	_ = d384

	type ep struct {
		name      string
		fullCheck bool // checks chain and time too (all but sops.VerifySignature)
		cli       bool
		f         func(v variant, rs rootSet, t time.Time) (accepted, applicable bool, detail string)
	}
	res := func(e error) (bool, bool, string) {
		if e == nil {
			return true, true, "accept"
		}
		return false, true, "reject: " + e.Error()
	}
	eps := []ep{
		{"verify.Endorsement", true, false, func(v variant, rs rootSet, t time.Time) (bool, bool, string) {
			return res(verify.Endorsement(v.bin, &verify.Options{RootsOfTrust: rs.pool(), Now: t}))
		}},
		{"verify.EndorsementProto", true, false, func(v variant, rs rootSet, t time.Time) (bool, bool, string) {
			return res(verify.EndorsementProto(v.end, &verify.Options{RootsOfTrust: rs.pool(), Now: t}))
		}},
		{"verify.EndorsementProto+snp+digest", true, false, func(v variant, rs rootSet, t time.Time) (bool, bool, string) {
			return res(verify.EndorsementProto(v.end, &verify.Options{RootsOfTrust: rs.pool(), Now: t,
				SNP: &verify.SNPOptions{Measurement: m1}, ExpectedUefiSha384: signed.Digest}))
		}},
		{"SNPValidateFunc(blob)", true, false, func(v variant, rs rootSet, t time.Time) (bool, bool, string) {
			return res(verify.SNPValidateFunc(&verify.Options{RootsOfTrust: rs.pool(), Now: t})(att.Snp(m1, nil), v.bin))
		}},
		{"SNPValidateFunc(opts.Endorsement)", true, false, func(v variant, rs rootSet, t time.Time) (bool, bool, string) {
			return res(verify.SNPValidateFunc(&verify.Options{RootsOfTrust: rs.pool(), Now: t, Endorsement: v.end})(att.Snp(m1, nil), nil))
		}},
		{"SNPFamilyValidateFunc(getter)", true, false, func(v variant, rs rootSet, t time.Time) (bool, bool, string) {
			return res(verify.SNPFamilyValidateFunc("11111111-2222-3333-4444-555555555555", &verify.Options{RootsOfTrust: rs.pool(), Now: t, Getter: &getter{v.bin}})(att.Snp(m1, nil), nil))
		}},
		{"SevValidate(opts.Endorsement)", true, false, func(v variant, rs rootSet, t time.Time) (bool, bool, string) {
			return res(gcetcbendorsement.SevValidate(ctx, att.Snp(m1, nil), &gcetcbendorsement.SevValidateOptions{Endorsement: v.end, RootsOfTrust: rs.pool(), Now: t, BasePolicy: base64policy()}))
		}},
		{"SevValidate(extras)", true, false, func(v variant, rs rootSet, t time.Time) (bool, bool, string) {
			return res(gcetcbendorsement.SevValidate(ctx, att.Snp(m1, v.bin), &gcetcbendorsement.SevValidateOptions{RootsOfTrust: rs.pool(), Now: t, BasePolicy: base64policy()}))
		}},
		// Two sources at once: the caller hands the endorsement over (it overrides what the attestation
		// carries, and the policy is derived from it) while the attestation's certificate table, or the
		// getter, holds the genuine one. What is accepted must still be what the caller handed over.
		{"SevValidate(opts.Endorsement; genuine in the certificate table)", true, false, func(v variant, rs rootSet, t time.Time) (bool, bool, string) {
			if v.end == nil {
				return false, false, "" // nothing handed over: the other source would legitimately decide
			}
			return res(gcetcbendorsement.SevValidate(ctx, att.Snp(m1, genuineBin), &gcetcbendorsement.SevValidateOptions{Endorsement: v.end, RootsOfTrust: rs.pool(), Now: t, BasePolicy: base64policy()}))
		}},
		{"SevValidate(opts.Endorsement; genuine behind the getter)", true, false, func(v variant, rs rootSet, t time.Time) (bool, bool, string) {
			if v.end == nil {
				return false, false, "" // nothing handed over: the other source would legitimately decide
			}
			return res(gcetcbendorsement.SevValidate(ctx, att.Snp(m1, nil), &gcetcbendorsement.SevValidateOptions{Endorsement: v.end, RootsOfTrust: rs.pool(), Now: t, BasePolicy: base64policy(), Getter: &getter{genuineBin}}))
		}},
		{"SevValidate(getter)", true, false, func(v variant, rs rootSet, t time.Time) (bool, bool, string) {
			return res(gcetcbendorsement.SevValidate(ctx, att.Snp(m1, nil), &gcetcbendorsement.SevValidateOptions{RootsOfTrust: rs.pool(), Now: t, BasePolicy: base64policy(), Getter: &getter{v.bin}}))
		}},
		{"TdxValidate(opts.Endorsement)", true, false, func(v variant, rs rootSet, t time.Time) (bool, bool, string) {
			return res(gcetcbendorsement.TdxValidate(ctx, att.TdxQuote(nil), &gcetcbendorsement.TdxValidateOptions{Endorsement: v.end, RootsOfTrust: rs.pool(), Now: t}))
		}},
		{"sops.VerifySignature", false, false, func(v variant, rs rootSet, t time.Time) (bool, bool, string) {
			g := &epb.VMGoldenMeasurement{}
			if proto.Unmarshal(v.end.SerializedUefiGolden, g) != nil {
				return false, false, ""
			}
			c, err := x509.ParseCertificate(g.Cert)
			if err != nil {
				return false, false, ""
			}
			return res(sops.VerifySignature(ctx, c, v.end.SerializedUefiGolden, v.end.Signature))
		}},
	}
	if rpcli.Available {
		snpAtt, _ := proto.Marshal(&tpmpb.Attestation{TeeAttestation: &tpmpb.Attestation_SevSnpAttestation{SevSnpAttestation: att.Snp(m1, nil)}})
		cli := func(args ...string) func(v variant, rs rootSet, t time.Time) (bool, bool, string) {
			return func(v variant, rs rootSet, t time.Time) (bool, bool, string) {
				if rs.pem == nil {
					return false, false, "" // no --root_cert would mean a network fetch of the production root
				}
				out := rpcli.Run(t, nil, map[string][]byte{"end": v.bin, "root": rs.pem, "snp": snpAtt, "tdx": att.TdxQuote(nil)}, args...)
				if out.Panicked != nil {
					panic(out.Panicked)
				}
				return res(out.Err)
			}
		}
		eps = append(eps,
			ep{"cli:verify", true, true, cli("verify", "end", "--root_cert=root")},
			ep{"cli:sev-validate", true, true, cli("sev", "validate", "snp", "--endorsement=end", "--root_cert=root")},
			ep{"cli:tdx-validate", true, true, cli("tdx", "validate", "tdx", "--endorsement=end", "--root_cert=root")},
		)
	} else {
		r.Degraded("in-process CLI (overlay export of the backend key did not build)")
	}

	var jobs []func()
	run := func(e ep, v variant, rs rootSet, vt vtime, group string) {
		id := fmt.Sprintf("ep=%s variant=%s roots=%s time=%s", e.name, v.name, rs.name, vt.name)
		jobs = append(jobs, func() {
			r.Case(id, func() string {
				var acc, app bool
				var det string
				pan, val := mc.Guard(func() { acc, app, det = e.f(v, rs, vt.t) })
				r.Eval()
				if pan {
					// A panic is not an acceptance; totality of the decoders is property C07's business.
					_ = val
					r.Outcome(e.name + ":panic")
					return "panic"
				}
				if !app {
					return "n/a"
				}
				r.Validated()
				ok, why := authentic(v.end, rs.pool(), vt.t, e.fullCheck)
				if acc && !ok {
					cls := why
					r.Violation(e.name+"/accepted:"+cls, id,
						fmt.Sprintf("%s accepted an endorsement that is not authentic (%s): variant=%s roots=%s time=%s", e.name, why, v.name, rs.name, vt.name),
						map[string]any{"variant": v.name, "roots": rs.name, "time": vt.t.Format(time.RFC3339), "reference": why})
				}
				if acc {
					r.Nontrivial(id)
					r.Outcome(e.name + ":accept")
				} else {
					r.Outcome(e.name + ":reject")
					r.Nontrivial(e.name + "|" + klass(det))
				}
				if r.State(e.name + "|" + group + "|" + fmt.Sprint(acc) + "|" + klass(det)) {
					r.Sample(map[string]any{"case": id, "reference": why, "result": klass(det)})
				}
				return det
			})
		})
	}
	// 1. structural variants x roots x times x entry points.
	for _, e := range eps {
		for _, v := range structural {
			for _, rs := range roots {
				for _, vt := range times {
					run(e, v, rs, vt, "structural")
				}
			}
		}
	}
	// 1b. The same time menu for a genuine endorsement of an authority bootstrapped a month before
	// the real present: its certificates ARE valid at the wall clock, so a verifier that consults the
	// wall clock instead of the caller's time accepts at NotAfter+1s and NotBefore-1s. (The main
	// fixtures live in 2040, where such a verifier rejects everything - visible to C03, not here.)
	{
		present := time.Now().UTC().Truncate(time.Second)
		an, err := fx.NewAuthority(present.Add(-30*24*time.Hour), "c01-wallclock")
		if err != nil {
			mc.Fatal("%v", err)
		}
		gn, err := an.SignGolden(proto.Clone(base).(*epb.VMGoldenMeasurement), present.Add(-30*24*time.Hour))
		if err != nil {
			mc.Fatal("%v", err)
		}
		vn := mk("genuine(wall-clock epoch)", gn.SerializedUefiGolden, gn.Signature)
		rn := rootSet{"right(wall-clock epoch)", pool(an.RootCert), pemOf(an.RootCert)}
		nbN, naN := an.SignCert.NotBefore, an.SignCert.NotAfter
		for _, e := range eps {
			for _, vt := range []vtime{{"mid", nbN.Add(naN.Sub(nbN) / 2)}, {"NotBefore-1s", nbN.Add(-time.Second)}, {"NotBefore", nbN}, {"NotAfter", naN}, {"NotAfter+1s", naN.Add(time.Second)}, {"NotAfter+10y", naN.Add(10 * 365 * 24 * time.Hour)}} {
				run(e, vn, rn, vt, "wallclock")
			}
		}
	}
	// 2. bit flips at (right roots, mid time).
	sigStride, payStride := 1, 8
	if r.Thorough() {
		payStride = 1
	}
	nSig, nPay := 0, 0
	for _, e := range eps {
		if e.cli && !r.Thorough() {
			// CLI paths share the library verifier; quick covers them with every 16th signature bit.
			for bit := 0; bit < len(sig)*8; bit += 16 {
				run(e, mk(fmt.Sprintf("sig^bit%d", bit), payload, att.Flip(sig, bit)), roots[0], times[0], "sigflip")
			}
			continue
		}
		for bit := 0; bit < len(sig)*8; bit += sigStride {
			run(e, mk(fmt.Sprintf("sig^bit%d", bit), payload, att.Flip(sig, bit)), roots[0], times[0], "sigflip")
			nSig++
		}
		for bit := 0; bit < len(payload)*8; bit += payStride {
			run(e, mk(fmt.Sprintf("payload^bit%d", bit), att.Flip(payload, bit), sig), roots[0], times[0], "payloadflip")
			nPay++
		}
	}
	// 3. outer-container bit flips for the entry points that take serialized bytes.
	for _, e := range eps {
		if e.name != "verify.Endorsement" && e.name != "SNPValidateFunc(blob)" && e.name != "SevValidate(extras)" && e.name != "cli:verify" {
			continue
		}
		full := structural[0].bin
		stride := 8
		if r.Thorough() && !e.cli {
			stride = 1
		}
		for bit := 0; bit < len(full)*8; bit += stride {
			b := att.Flip(full, bit)
			pe := &epb.VMLaunchEndorsement{}
			if proto.Unmarshal(b, pe) != nil {
				pe = nil
			}
			run(e, variant{fmt.Sprintf("container^bit%d", bit), pe, b}, roots[0], times[0], "containerflip")
		}
	}
	// 4. Two-call sessions ("start from a non-initial state"): the genuine endorsement is verified
	// first, then a deviation is presented to the SAME verifier objects - one root pool, one
	// options value, one validator closure, and (when the lengths agree) one recycled byte buffer.
	// Anything a verifier remembers between calls (a cache of verified chains, a memo of the last
	// accepted endorsement, retained caller memory) shows up here and nowhere in the one-shot cases.
	type session struct {
		name string
		open func(rs rootSet, t time.Time) func(v variant, t time.Time) error
	}
	recycle := func(buf *[]byte, b []byte) []byte {
		if len(*buf) == len(b) {
			copy(*buf, b)
			return *buf
		}
		*buf = append([]byte(nil), b...)
		return *buf
	}
	sessions := []session{
		{"session:verify.Endorsement", func(rs rootSet, t time.Time) func(variant, time.Time) error {
			opts, buf := &verify.Options{RootsOfTrust: rs.pool()}, []byte{}
			return func(v variant, t time.Time) error {
				opts.Now = t
				return verify.Endorsement(recycle(&buf, v.bin), opts)
			}
		}},
		{"session:verify.EndorsementProto", func(rs rootSet, t time.Time) func(variant, time.Time) error {
			opts := &verify.Options{RootsOfTrust: rs.pool()}
			return func(v variant, t time.Time) error { opts.Now = t; return verify.EndorsementProto(v.end, opts) }
		}},
		{"session:SNPValidateFunc(blob)", func(rs rootSet, t time.Time) func(variant, time.Time) error {
			opts, buf := &verify.Options{RootsOfTrust: rs.pool(), Now: t}, []byte{}
			f := verify.SNPValidateFunc(opts)
			return func(v variant, t time.Time) error { opts.Now = t; return f(att.Snp(m1, nil), recycle(&buf, v.bin)) }
		}},
		{"session:SNPFamilyValidateFunc(getter)", func(rs rootSet, t time.Time) func(variant, time.Time) error {
			g := &getter{}
			opts := &verify.Options{RootsOfTrust: rs.pool(), Now: t, Getter: g}
			f := verify.SNPFamilyValidateFunc("11111111-2222-3333-4444-555555555555", opts)
			return func(v variant, t time.Time) error {
				opts.Now = t
				g.body = recycle(&g.body, v.bin)
				return f(att.Snp(m1, nil), nil)
			}
		}},
		{"session:SevValidate(extras)", func(rs rootSet, t time.Time) func(variant, time.Time) error {
			opts, buf := &gcetcbendorsement.SevValidateOptions{RootsOfTrust: rs.pool(), BasePolicy: base64policy()}, []byte{}
			return func(v variant, t time.Time) error {
				opts.Now = t
				return gcetcbendorsement.SevValidate(ctx, att.Snp(m1, recycle(&buf, v.bin)), opts)
			}
		}},
		{"session:TdxValidate(opts.Endorsement)", func(rs rootSet, t time.Time) func(variant, time.Time) error {
			opts := &gcetcbendorsement.TdxValidateOptions{RootsOfTrust: rs.pool()}
			return func(v variant, t time.Time) error {
				opts.Now, opts.Endorsement = t, v.end
				return gcetcbendorsement.TdxValidate(ctx, att.TdxQuote(nil), opts)
			}
		}},
	}
	var second []variant
	second = append(second, structural...)
	for bit := 0; bit < len(sig)*8; bit += 64 {
		second = append(second, mk(fmt.Sprintf("sig^bit%d", bit), payload, att.Flip(sig, bit)))
	}
	for bit := 0; bit < len(payload)*8; bit += 64 {
		second = append(second, mk(fmt.Sprintf("payload^bit%d", bit), att.Flip(payload, bit), sig))
	}
	nSess := 0
	for _, se := range sessions {
		for _, rs := range []rootSet{roots[0], roots[4]} {
			for _, v := range second {
				for _, vt := range []vtime{times[0], times[4]} {
					se, rs, v, vt := se, rs, v, vt
					if v.end == nil && strings.Contains(se.name, "Proto") {
						continue
					}
					nSess++
					id := fmt.Sprintf("ep=%s first=genuine@mid second=%s roots=%s time=%s", se.name, v.name, rs.name, vt.name)
					jobs = append(jobs, func() {
						r.Case(id, func() string {
							var e1, e2 error
							pan, _ := mc.Guard(func() {
								call := se.open(rs, times[0].t)
								e1 = call(structural[0], times[0].t)
								e2 = call(v, vt.t)
							})
							r.Eval()
							if pan || v.end == nil {
								r.Outcome(se.name + ":panic-or-undecodable")
								return "panic"
							}
							r.Validated()
							ok, why := authentic(v.end, rs.pool(), vt.t, true)
							if e2 == nil && !ok {
								r.Violation(se.name+"/accepted-after-genuine:"+why, id,
									fmt.Sprintf("%s accepted an endorsement that is not authentic (%s) when it was presented to the same verifier objects right after the genuine one: second=%s roots=%s time=%s", se.name, why, v.name, rs.name, vt.name),
									map[string]any{"first_result": fmt.Sprint(e1), "reference": why})
							}
							if e2 == nil {
								r.Nontrivial(id)
							}
							r.Outcome(se.name + map[bool]string{true: ":accept", false: ":reject"}[e2 == nil])
							return fmt.Sprint(e1, "|", e2)
						})
					})
				}
			}
		}
	}
	r.Set("two_call_sessions", nSess)
	// 5. Present-time sessions. A caller that leaves Options.Now unset asks for "the time of this
	// call". One Options value (Now unset) is used for two calls: the first while a short-lived
	// signing certificate is valid, the second - on the same value, and on a validator built from it -
	// after real time has passed its NotAfter. The second call must be refused; a verifier that
	// remembers the time of an earlier call accepts it. (This is the one place where real time is
	// allowed to pass: about three seconds, in parallel with everything else. If the machine stalls so
	// long that the certificate is already expired at the first call, the case gives no verdict.)
	for _, pe := range []string{"verify.Endorsement", "verify.EndorsementProto", "SNPValidateFunc-built-after-a-direct-call"} {
		pe := pe
		id := "present-time ep=" + pe + " first=while-valid second=after-expiry"
		jobs = append(jobs, func() {
			r.Case(id, func() string {
				present := time.Now().UTC()
				pa, err := fx.NewAuthorityWithSibling(present.Add(-time.Hour), "c01-present")
				if err != nil {
					mc.Fatal("%v", err)
				}
				notAfter := time.Now().Add(2 * time.Second).Truncate(time.Second).Add(time.Second)
				t := &x509.Certificate{SerialNumber: big.NewInt(7), Subject: pa.SiblingCert.Subject, NotBefore: present.Add(-time.Minute), NotAfter: notAfter,
					KeyUsage: x509.KeyUsageDigitalSignature, SignatureAlgorithm: x509.SHA256WithRSAPSS}
				der, err := x509.CreateCertificate(rand.Reader, t, pa.RootCert, &pa.SiblingKey.PublicKey, pa.RootKey)
				if err != nil {
					mc.Fatal("short-lived certificate: %v", err)
				}
				g := proto.Clone(signed).(*epb.VMGoldenMeasurement)
				g.Cert = der
				pl, _ := proto.Marshal(g)
				v := mk("short-lived", pl, pss(pa.SiblingKey, crypto.SHA256, rsa.PSSSaltLengthEqualsHash, pl))
				opts := &verify.Options{RootsOfTrust: pa.Roots()} // Now unset
				call := func() error {
					switch pe {
					case "verify.Endorsement":
						return verify.Endorsement(v.bin, opts)
					case "verify.EndorsementProto":
						return verify.EndorsementProto(v.end, opts)
					default:
						return verify.SNPValidateFunc(opts)(att.Snp(m1, nil), v.bin)
					}
				}
				var e1, e2 error
				pan, _ := mc.Guard(func() {
					if pe == "SNPValidateFunc-built-after-a-direct-call" {
						e1 = verify.Endorsement(v.bin, opts)
					} else {
						e1 = call()
					}
				})
				firstAt := time.Now()
				r.Eval()
				if pan || e1 != nil || !firstAt.Before(notAfter) {
					r.Outcome("present-time:no-verdict")
					return "no verdict"
				}
				time.Sleep(time.Until(notAfter.Add(1200 * time.Millisecond)))
				pan, _ = mc.Guard(func() { e2 = call() })
				r.Eval()
				r.Validated()
				if !pan && e2 == nil {
					r.Violation(pe+"/accepted-after-expiry-with-unset-Now", id,
						fmt.Sprintf("%s with Options.Now unset accepted an endorsement whose certificate expired at %s, %.1fs before the call; the same Options value had verified it %.1fs earlier, while it was valid", pe, notAfter.Format(time.RFC3339), time.Since(notAfter).Seconds(), time.Since(firstAt).Seconds()), nil)
				}
				r.Nontrivial(id)
				r.Outcome("present-time:" + map[bool]string{true: "accept", false: "reject"}[e2 == nil])
				return fmt.Sprint(e2 == nil)
			})
		})
	}
	r.Set("signature_bits", len(sig)*8)
	r.Set("payload_bits", len(payload)*8)
	r.Set("structural_variants", len(structural))
	r.Set("entry_points", len(eps))
	r.ParallelFor(len(jobs), func(i int) { jobs[i]() })
	r.Finish()
}

func klass(s string) string {
	out := make([]byte, 0, len(s))
	run := 0
	for i := 0; i < len(s); i++ {
		c := s[i]
		if (c >= '0' && c <= '9') || (c >= 'a' && c <= 'f') {
			run++
			if run > 4 {
				continue
			}
		} else {
			run = 0
		}
		out = append(out, c)
	}
	if len(out) > 100 {
		out = out[:100]
	}
	return string(out)
}
