// C02 — accepted attestations carry an endorsed measurement for the named configuration.
//
// Engine E5: the full product of {endorsed tables} x {report measurements incl. one-bit
// neighbours} x {requested VMSA counts / RAM sizes} x {expected digests} x {entry points} is
// enumerated on the real validators and compared with a reference "Listed(config)" model.
package main

import (
	"bytes"
	"context"
	"crypto/x509"
	"encoding/hex"
	"encoding/pem"
	"fmt"

	"github.com/google/gce-tcb-verifier/cmd/output"
	"github.com/google/gce-tcb-verifier/gcetcbendorsement"
	epb "github.com/google/gce-tcb-verifier/proto/endorsement"
	"github.com/google/gce-tcb-verifier/verify"
	"github.com/google/go-sev-guest/abi"
	cpb "github.com/google/go-sev-guest/proto/check"
	tpmpb "github.com/google/go-tpm-tools/proto/attest"
	"google.golang.org/protobuf/proto"

	"verifharness/att"
	"verifharness/fx"
	"verifharness/mc"
	"verifharness/rpcli"
)

type table struct {
	idx    int
	snp    map[uint32][]byte
	svsm   []byte
	rows   []att.TdxRow
	golden *epb.VMGoldenMeasurement
	end    *epb.VMLaunchEndorsement
	endBin []byte
}

var (
	counts   = []uint32{1, 2, 4}
	snpVals  = map[uint32][]byte{1: att.Meas(0x11), 2: att.Meas(0x22), 4: att.Meas(0x44)}
	svsmVal  = att.Meas(0x55)
	tdxProto = []att.TdxRow{{0, false, att.Meas(0xa0)}, {16, false, att.Meas(0xa1)}, {16, true, att.Meas(0xa2)}, {32, false, att.Meas(0xa3)}}
)

type cand struct {
	name string
	b    []byte
}

func neighbours(name string, v []byte) []cand {
	return []cand{{name, v}, {name + "^bit0", att.Flip(v, 0)}, {name + "^bit383", att.Flip(v, 383)}, {name + "[:47]", v[:47]}, {name + "+00", append(append([]byte(nil), v...), 0)}}
}

func in(set [][]byte, v []byte) bool {
	for _, s := range set {
		if bytes.Equal(s, v) {
			return true
		}
	}
	return false
}

func snpListed(t *table, n uint32) [][]byte {
	var out [][]byte
	switch {
	case n == 0:
		for _, v := range t.snp {
			out = append(out, v)
		}
		if t.svsm != nil {
			out = append(out, t.svsm)
		}
	case n == 1:
		if v, ok := t.snp[1]; ok {
			out = append(out, v)
		}
		if t.svsm != nil {
			out = append(out, t.svsm)
		}
	default:
		if v, ok := t.snp[n]; ok {
			out = append(out, v)
		}
	}
	return out
}

func tdxListed(t *table, ram int) [][]byte {
	var out [][]byte
	for _, r := range t.rows {
		if ram == 0 || int(r.Ram) == ram {
			out = append(out, r.Mrtd)
		}
	}
	return out
}

func main() {
	r := mc.NewRun("C02")
	r.Rule("E5 full product: 16 endorsed tables (every subset of VMSA counts {1,2,4} x SVSM absent/present; every subset of TDX rows {(0,no),(16,no),(16,early),(32,no)}) x report measurements (each universe value, one-bit neighbours first/last bit, 47- and 49-byte variants, zero, unrelated) x requested counts {0,1,2,3,4,8,255,256,65535,65536,2^31,2^32-2,2^32-1} / RAM {0,16,32,64} x expected digests x entry points; non-trivial = distinct (entry point, table, measurement, config) where the validator accepted, or a distinct rejection class")
	r.Assume("Listed(1 VMSA) is read loosely as {Measurements[1]} U {SVSM measurement}")
	auth, err := fx.NewAuthority(fx.T0, "c02")
	if err != nil {
		mc.Fatal("authority: %v", err)
	}
	now := fx.T0.Add(24 * 3600e9)
	rootPEM := pem.EncodeToMemory(&pem.Block{Type: "CERTIFICATE", Bytes: auth.RootCert.Raw})
	var tables []*table
	for i := 0; i < 16; i++ {
		t := &table{idx: i, snp: map[uint32][]byte{}}
		for b, c := range counts {
			if i&(1<<b) != 0 {
				t.snp[c] = snpVals[c]
			}
		}
		if i&8 != 0 {
			t.svsm = svsmVal
		}
		for b, row := range tdxProto {
			if i&(1<<b) != 0 {
				t.rows = append(t.rows, row)
			}
		}
		t.golden = att.Golden(t.snp, t.svsm, true, t.rows, true, fx.T0)
		t.end, err = auth.SignGolden(proto.Clone(t.golden).(*epb.VMGoldenMeasurement), fx.T0)
		if err != nil {
			mc.Fatal("sign: %v", err)
		}
		t.endBin, _ = proto.Marshal(t.end)
		// Parse back the golden actually signed (carries cert etc.).
		t.golden = &epb.VMGoldenMeasurement{}
		proto.Unmarshal(t.end.SerializedUefiGolden, t.golden)
		tables = append(tables, t)
	}
	var snpCands []cand
	for _, c := range counts {
		snpCands = append(snpCands, neighbours(fmt.Sprintf("M%d", c), snpVals[c])...)
	}
	snpCands = append(snpCands, neighbours("SVSM", svsmVal)...)
	snpCands = append(snpCands, cand{"zero48", make([]byte, 48)}, cand{"unrelated", att.Meas(0x77)})
	var tdxCands []cand
	for i, row := range tdxProto {
		n := neighbours(fmt.Sprintf("T%d", i), row.Mrtd)
		tdxCands = append(tdxCands, n[0], n[1], n[2])
	}
	tdxCands = append(tdxCands, cand{"zero48", make([]byte, 48)}, cand{"unrelated", att.Meas(0x78)})
	// small counts, and counts of unusual magnitude (no endorsement here lists any of the latter)
	reqCounts := []uint32{0, 1, 2, 3, 4, 8, 255, 256, 65535, 65536, 1 << 31, 1<<32 - 2, 1<<32 - 1}
	rams := []int{0, 16, 32, 64}
	if r.Thorough() {
		reqCounts = append(reqCounts, 5, 16, 240, 0xffffffff)
		rams = append(rams, 1, 17, 48, 1<<31-1)
	}
	prodPolicy := abi.SnpPolicyToBytes(abi.SnpPolicy{SMT: true, MigrateMA: true})
	ctx := output.NewContext(context.Background(), &output.Options{Quiet: true})
	roots := func() *x509.CertPool { return auth.Roots() }

	type snpEP struct {
		name string
		f    func(t *table, m []byte, n uint32) (accepted bool, applicable bool, detail string)
	}
	errStr := func(e error) string {
		if e == nil {
			return "accept"
		}
		return "reject: " + e.Error()
	}
	snpEPs := []snpEP{
		{"verify.SNP", func(t *table, m []byte, n uint32) (bool, bool, string) {
			e := verify.SNP(t.golden, &verify.SNPOptions{Measurement: m, ExpectedLaunchVMSAs: n})
			return e == nil, true, errStr(e)
		}},
		{"verify.EndorsementProto", func(t *table, m []byte, n uint32) (bool, bool, string) {
			e := verify.EndorsementProto(t.end, &verify.Options{SNP: &verify.SNPOptions{Measurement: m, ExpectedLaunchVMSAs: n}, RootsOfTrust: roots(), Now: now})
			return e == nil, true, errStr(e)
		}},
		{"SNPValidateFunc", func(t *table, m []byte, n uint32) (bool, bool, string) {
			f := verify.SNPValidateFunc(&verify.Options{SNP: &verify.SNPOptions{ExpectedLaunchVMSAs: n}, RootsOfTrust: roots(), Now: now})
			e := f(att.Snp(m, nil), t.endBin)
			return e == nil, true, errStr(e)
		}},
		{"SevValidate", func(t *table, m []byte, n uint32) (bool, bool, string) {
			e := gcetcbendorsement.SevValidate(ctx, att.Snp(m, t.endBin), &gcetcbendorsement.SevValidateOptions{
				RootsOfTrust: roots(), Now: now, ExpectedLaunchVmsas: n,
				BasePolicy: &cpb.Policy{MinimumVersion: "0.0", Policy: prodPolicy}})
			return e == nil, true, errStr(e)
		}},
		{"SevValidate(opts.Endorsement)", func(t *table, m []byte, n uint32) (bool, bool, string) {
			// the endorsement handed over out of band; the attestation's certificate table has no copy
			e := gcetcbendorsement.SevValidate(ctx, att.Snp(m, nil), &gcetcbendorsement.SevValidateOptions{
				Endorsement: t.end, RootsOfTrust: roots(), Now: now, ExpectedLaunchVmsas: n,
				BasePolicy: &cpb.Policy{MinimumVersion: "0.0", Policy: prodPolicy}})
			return e == nil, true, errStr(e)
		}},
		{"SevPolicy+compare", func(t *table, m []byte, n uint32) (bool, bool, string) {
			// A relying party that derives the policy and compares the policy measurement itself.
			p, e := gcetcbendorsement.SevPolicy(ctx, t.end, &gcetcbendorsement.SevPolicyOptions{LaunchVmsas: n, AllowUnspecifiedVmsas: false})
			if e != nil {
				return false, true, errStr(e)
			}
			if n == 0 {
				return false, false, "n=0 not allowed"
			}
			return bytes.Equal(p.GetMeasurement(), m), true, "policy.measurement=" + hex.EncodeToString(p.GetMeasurement())
		}},
	}
	if rpcli.Available {
		snpEPs = append(snpEPs, snpEP{"cli:sev-validate", func(t *table, m []byte, n uint32) (bool, bool, string) {
			if len(m) != 48 {
				return false, false, "" // a serialized attestation with a non-48-byte measurement is not recognised as SNP
			}
			ab, _ := proto.Marshal(&tpmpb.Attestation{TeeAttestation: &tpmpb.Attestation_SevSnpAttestation{SevSnpAttestation: att.Snp(m, nil)}})
			res := rpcli.Run(now, nil, map[string][]byte{"att": ab, "end": t.endBin, "root": rootPEM},
				"sev", fmt.Sprintf("--launch_vmsas=%d", n), "validate", "att", "--endorsement=end", "--root_cert=root")
			if res.Panicked != nil {
				return false, true, fmt.Sprintf("panic: %v", res.Panicked)
			}
			return res.Err == nil, true, errStr(res.Err)
		}})
	} else {
		r.Degraded("in-process CLI (overlay export of the backend key did not build)")
	}

	type job struct{ f func() }
	var jobs []job
	add := func(f func()) { jobs = append(jobs, job{f}) }

	for _, t := range tables {
		for _, ep := range snpEPs {
			for _, c := range snpCands {
				for _, n := range reqCounts {
					t, ep, c, n := t, ep, c, n
					id := fmt.Sprintf("snp ep=%s table=%d meas=%s count=%d", ep.name, t.idx, c.name, n)
					add(func() {
						r.Case(id, func() string {
							var acc, app bool
							var det string
							pan, val := mc.Guard(func() { acc, app, det = ep.f(t, c.b, n) })
							r.Eval()
							if pan {
								r.Violation("panic/"+ep.name, id, fmt.Sprintf("%s panicked: %v", ep.name, val), nil)
								return "panic"
							}
							if !app {
								return "n/a"
							}
							r.Validated()
							listed := snpListed(t, n)
							if acc && !in(listed, c.b) {
								kind := "unlisted-measurement-accepted"
								if len(listed) == 0 {
									kind = "unlisted-config-accepted"
								} else if !in(snpListed(t, 0), c.b) {
									kind = "unendorsed-measurement-accepted"
								} else {
									kind = "measurement-of-other-config-accepted"
								}
								r.Violation(ep.name+"/"+kind, id, fmt.Sprintf("%s accepted measurement %s for %d VMSAs but the endorsement (counts %v, svsm=%v) does not list it for that configuration", ep.name, c.name, n, keys(t.snp), t.svsm != nil),
									map[string]any{"table": t.idx, "measurement": hex.EncodeToString(c.b), "count": n, "detail": det})
							}
							if acc {
								r.Nontrivial(id)
								r.Outcome(ep.name + ":accept")
							} else {
								r.Outcome(ep.name + ":reject")
							}
							if r.State(fmt.Sprintf("%s|%v|%s", ep.name, acc, class(det))) {
								r.Sample(map[string]any{"case": id, "result": det})
							}
							return det
						})
					})
				}
			}
		}
	}

	// TDX.
	type tdxEP struct {
		name string
		f    func(t *table, m []byte, ram int) (bool, bool, string)
	}
	tdxEPs := []tdxEP{
		{"TdxValidate", func(t *table, m []byte, ram int) (bool, bool, string) {
			e := gcetcbendorsement.TdxValidate(ctx, att.TdxQuote(m), &gcetcbendorsement.TdxValidateOptions{Endorsement: t.end, RootsOfTrust: roots(), Now: now, ExpectedRAMGiB: ram})
			return e == nil, true, errStr(e)
		}},
		{"TdxPolicy+compare", func(t *table, m []byte, ram int) (bool, bool, string) {
			p, e := gcetcbendorsement.TdxPolicy(ctx, t.end, &gcetcbendorsement.TdxPolicyOptions{RAMGiB: ram})
			if e != nil {
				return false, true, errStr(e)
			}
			allow := p.GetTdQuoteBodyPolicy().GetAnyMrTd()
			// go-tdx-guest semantics: an empty allow-list means "do not check".
			return len(allow) == 0 || in(allow, m), true, fmt.Sprintf("any_mr_td has %d entries", len(allow))
		}},
	}
	if rpcli.Available {
		tdxEPs = append(tdxEPs, tdxEP{"cli:tdx-validate", func(t *table, m []byte, ram int) (bool, bool, string) {
			res := rpcli.Run(now, nil, map[string][]byte{"att": att.TdxQuote(m), "end": t.endBin, "root": rootPEM},
				"tdx", fmt.Sprintf("--ram_gib=%d", ram), "validate", "att", "--endorsement=end", "--root_cert=root")
			if res.Panicked != nil {
				return false, true, fmt.Sprintf("panic: %v", res.Panicked)
			}
			return res.Err == nil, true, errStr(res.Err)
		}})
	}
	for _, t := range tables {
		for _, ep := range tdxEPs {
			for _, c := range tdxCands {
				for _, ram := range rams {
					t, ep, c, ram := t, ep, c, ram
					id := fmt.Sprintf("tdx ep=%s table=%d mrtd=%s ram=%d", ep.name, t.idx, c.name, ram)
					add(func() {
						r.Case(id, func() string {
							var acc, app bool
							var det string
							pan, val := mc.Guard(func() { acc, app, det = ep.f(t, c.b, ram) })
							r.Eval()
							if pan {
								r.Violation("panic/"+ep.name, id, fmt.Sprintf("%s panicked: %v", ep.name, val), nil)
								return "panic"
							}
							if !app {
								return "n/a"
							}
							r.Validated()
							listed := tdxListed(t, ram)
							if acc && !in(listed, c.b) {
								kind := "measurement-of-other-config-accepted"
								if len(listed) == 0 {
									kind = "unlisted-config-accepted"
								} else if !in(tdxListed(t, 0), c.b) {
									kind = "unendorsed-measurement-accepted"
								}
								r.Violation(ep.name+"/"+kind, id, fmt.Sprintf("%s accepted MRTD %s for RAM %d GiB but the endorsement lists %d row(s) for that size and none equals it", ep.name, c.name, ram, len(listed)),
									map[string]any{"table": t.idx, "mrtd": hex.EncodeToString(c.b), "ram": ram, "detail": det})
							}
							if acc {
								r.Nontrivial(id)
								r.Outcome(ep.name + ":accept")
							} else {
								r.Outcome(ep.name + ":reject")
							}
							if r.State(fmt.Sprintf("%s|%v|%s", ep.name, acc, class(det))) {
								r.Sample(map[string]any{"case": id, "result": det})
							}
							return det
						})
					})
				}
			}
		}
	}

	// Expected firmware digest.
	t := tables[15]
	dg := t.golden.Digest
	digests := []cand{{"unset", nil}, {"empty", []byte{}}, {"equal", dg}, {"^bit0", att.Flip(dg, 0)}, {"^bit383", att.Flip(dg, 383)}, {"[:47]", dg[:47]}, {"+00", append(append([]byte(nil), dg...), 0)}, {"zero48", make([]byte, 48)}}
	for _, d := range digests {
		for _, via := range []string{"verify.EndorsementProto", "verify.Endorsement", "SNPValidateFunc"} {
			d, via := d, via
			id := fmt.Sprintf("digest ep=%s expected=%s", via, d.name)
			add(func() {
				r.Case(id, func() string {
					o := &verify.Options{RootsOfTrust: roots(), Now: now, ExpectedUefiSha384: d.b}
					var e error
					switch via {
					case "verify.EndorsementProto":
						e = verify.EndorsementProto(t.end, o)
					case "verify.Endorsement":
						e = verify.Endorsement(t.endBin, o)
					default:
						e = verify.SNPValidateFunc(o)(att.Snp(snpVals[1], nil), t.endBin)
					}
					r.Eval()
					r.Validated()
					ok := len(d.b) == 0 || bytes.Equal(d.b, dg)
					if e == nil && !ok {
						r.Violation(via+"/digest-mismatch-accepted", id, fmt.Sprintf("%s accepted although the expected firmware digest (%s) differs from the endorsed digest", via, d.name), nil)
					}
					if e == nil {
						r.Nontrivial(id)
					}
					r.Outcome(via + ":digest:" + map[bool]string{true: "accept", false: "reject"}[e == nil])
					return errStr(e)
				})
			})
		}
	}
	// History: another endorsement is presented first - one that lists the stray measurement P for
	// the named configuration, either genuine (and rightly accepted) or with a golden measurement that
	// stops decoding after those rows (and rightly refused) - and then the endorsement under test,
	// which does not list P, in the same goroutine right afterwards. Whatever the first call left
	// behind (a pooled message, a memo) must not make the second accept P.
	P, PT := att.Meas(0x77), att.Meas(0x78)
	mkPoison := func(valid bool) *table {
		pt := &table{idx: -1, snp: map[uint32][]byte{1: P, 2: P, 4: P, 8: P}, svsm: P,
			rows: []att.TdxRow{{0, false, PT}, {16, false, PT}, {16, true, PT}, {32, false, PT}, {64, false, PT}}}
		pt.golden = att.Golden(pt.snp, pt.svsm, true, pt.rows, true, fx.T0)
		if valid {
			pt.end, err = auth.SignGolden(proto.Clone(pt.golden).(*epb.VMGoldenMeasurement), fx.T0)
			if err != nil {
				mc.Fatal("sign: %v", err)
			}
		} else {
			b, _ := proto.Marshal(&epb.VMGoldenMeasurement{SevSnp: pt.golden.SevSnp, Tdx: pt.golden.Tdx})
			pt.end = &epb.VMLaunchEndorsement{SerializedUefiGolden: append(b, 0xff), Signature: []byte("none")}
		}
		pt.endBin, _ = proto.Marshal(pt.end)
		return pt
	}
	poisons := []struct {
		name string
		t    *table
	}{{"genuine-other-endorsement", mkPoison(true)}, {"undecodable-tail", mkPoison(false)}}
	for _, t := range tables {
		for _, po := range poisons {
			for _, ep := range snpEPs {
				for _, n := range []uint32{0, 2, 8} {
					t, po, ep, n := t, po, ep, n
					id := fmt.Sprintf("snp-after ep=%s first=%s table=%d meas=P count=%d", ep.name, po.name, t.idx, n)
					add(func() {
						r.Case(id, func() string {
							var acc, app bool
							var det string
							pan, val := mc.Guard(func() {
								ep.f(po.t, P, n)
								acc, app, det = ep.f(t, P, n)
							})
							r.Eval()
							if pan {
								r.Violation("panic/"+ep.name, id, fmt.Sprintf("%s panicked: %v", ep.name, val), nil)
								return "panic"
							}
							if !app {
								return "n/a"
							}
							r.Validated()
							if acc {
								r.Violation(ep.name+"/unlisted-measurement-accepted-after-another-endorsement", id,
									fmt.Sprintf("%s accepted measurement P for %d VMSAs against an endorsement (counts %v) that does not list it, right after a call that presented %s listing P", ep.name, n, keys(t.snp), po.name),
									map[string]any{"table": t.idx, "count": n, "detail": det})
							}
							r.Outcome(ep.name + ":after:" + map[bool]string{true: "accept", false: "reject"}[acc])
							return det
						})
					})
				}
			}
			for _, ep := range tdxEPs {
				for _, ram := range []int{0, 16, 64} {
					t, po, ep, ram := t, po, ep, ram
					id := fmt.Sprintf("tdx-after ep=%s first=%s table=%d mrtd=P ram=%d", ep.name, po.name, t.idx, ram)
					add(func() {
						r.Case(id, func() string {
							var acc, app bool
							var det string
							pan, val := mc.Guard(func() {
								ep.f(po.t, PT, ram)
								acc, app, det = ep.f(t, PT, ram)
							})
							r.Eval()
							if pan {
								r.Violation("panic/"+ep.name, id, fmt.Sprintf("%s panicked: %v", ep.name, val), nil)
								return "panic"
							}
							if !app {
								return "n/a"
							}
							r.Validated()
							if acc {
								r.Violation(ep.name+"/unlisted-mrtd-accepted-after-another-endorsement", id,
									fmt.Sprintf("%s accepted MRTD P for RAM %d GiB against an endorsement that does not list it, right after a call that presented %s listing P", ep.name, ram, po.name),
									map[string]any{"table": t.idx, "ram": ram, "detail": det})
							}
							r.Outcome(ep.name + ":after:" + map[bool]string{true: "accept", false: "reject"}[acc])
							return det
						})
					})
				}
			}
		}
	}
	r.ParallelFor(len(jobs), func(i int) { jobs[i].f() })
	r.Set("tables", len(tables))
	r.Set("snp_measurement_candidates", len(snpCands))
	r.Set("tdx_mrtd_candidates", len(tdxCands))
	r.Finish()
}

func keys(m map[uint32][]byte) []uint32 {
	var out []uint32
	for _, c := range counts {
		if _, ok := m[c]; ok {
			out = append(out, c)
		}
	}
	return out
}

// class strips hex payloads from an error string so that observation classes stay few.
func class(s string) string {
	out := make([]byte, 0, len(s))
	run := 0
	for i := 0; i < len(s); i++ {
		c := s[i]
		isHex := (c >= '0' && c <= '9') || (c >= 'a' && c <= 'f')
		if isHex {
			run++
			if run > 6 {
				continue
			}
		} else {
			run = 0
		}
		out = append(out, c)
	}
	if len(out) > 120 {
		out = out[:120]
	}
	return string(out)
}
