// C20 — Cloud KMS signing and key lifecycle are integrity-checked and complete.
//
// Engine E1 over a model KMS client: an in-process kmspb.KeyManagementServiceClient that obeys the
// List contract (at most page_size items, next token empty iff nothing remains, total_size set)
// and lets the chooser decide every page's length, how many polls a key generation takes and
// which call fails. The real gcpkms Signer and Manager are driven against it: every single-bit
// corruption of a signing response; bootstrap / rotation / wipeout over key rings with versions
// in states around and beyond the page size. A second binary built with the page-size constant
// rewritten to 3 enumerates all small rings with all paging behaviours.
package main

import (
	"context"
	"crypto"
	"crypto/rsa"
	"errors"
	"fmt"
	"hash/crc32"
	"os"
	"os/exec"
	"runtime"
	"strconv"
	"strings"
	"time"

	"cloud.google.com/go/kms/apiv1/kmspb"
	"github.com/google/gce-tcb-verifier/cmd/output"
	"github.com/google/gce-tcb-verifier/keys/gcpkms"
	styp "github.com/google/gce-tcb-verifier/sign/types"
	"github.com/google/gce-tcb-verifier/vhook"
	"google.golang.org/grpc"
	"google.golang.org/grpc/codes"
	"google.golang.org/grpc/status"
	"google.golang.org/protobuf/types/known/wrapperspb"

	"verifharness/mc"
)

type ver struct {
	name  string
	state kmspb.CryptoKeyVersion_CryptoKeyVersionState
	polls int // remaining polls before a pending version becomes enabled
}

// model is the in-process KMS.
type model struct {
	kmspb.KeyManagementServiceClient // unimplemented methods panic (nil interface)
	c                                *mc.Chooser
	keys                             map[string][]*ver // key name -> versions in creation order
	keyOrder                         []string
	calls                            int
	horizon                          int
	overHorizon                      bool
	log                              []string
	pageChoices                      bool // let the chooser pick page lengths
	failures                         bool // let the chooser fail calls
	genPolls                         int
	signResp                         func(req *kmspb.AsymmetricSignRequest) *kmspb.AsymmetricSignResponse
}

var errService = status.Error(codes.Unavailable, "injected service error")

func (m *model) enter(name string) error {
	m.calls++
	m.log = append(m.log, name)
	if m.calls > m.horizon {
		m.overHorizon = true
		return status.Error(codes.ResourceExhausted, "call-count horizon exceeded")
	}
	if m.failures && m.c.Choose(2, "fail:"+name) == 1 {
		return errService
	}
	return nil
}

// pageLen lets the chooser pick a legal page length for `remaining` items and page size ps.
func (m *model) pageLen(remaining, ps int) int {
	full := ps
	if remaining < full {
		full = remaining
	}
	if !m.pageChoices || full <= 1 {
		return full
	}
	opts := []int{full}
	if full-1 >= 1 {
		opts = append(opts, full-1)
	}
	if full > 2 {
		opts = append(opts, 1)
	}
	return opts[m.c.Choose(len(opts), fmt.Sprintf("page-length(remaining=%d)", remaining))]
}

func (m *model) ListCryptoKeyVersions(_ context.Context, req *kmspb.ListCryptoKeyVersionsRequest, _ ...grpc.CallOption) (*kmspb.ListCryptoKeyVersionsResponse, error) {
	if err := m.enter("ListCryptoKeyVersions"); err != nil {
		return nil, err
	}
	vs, ok := m.keys[req.Parent]
	if !ok {
		return nil, status.Error(codes.NotFound, "no such key")
	}
	off := 0
	if req.PageToken != "" {
		off, _ = strconv.Atoi(req.PageToken)
	}
	n := m.pageLen(len(vs)-off, int(req.PageSize))
	resp := &kmspb.ListCryptoKeyVersionsResponse{TotalSize: int32(len(vs))}
	for _, v := range vs[off : off+n] {
		resp.CryptoKeyVersions = append(resp.CryptoKeyVersions, &kmspb.CryptoKeyVersion{Name: v.name, State: v.state})
	}
	if off+n < len(vs) {
		resp.NextPageToken = strconv.Itoa(off + n)
	}
	return resp, nil
}

func (m *model) ListCryptoKeys(_ context.Context, req *kmspb.ListCryptoKeysRequest, _ ...grpc.CallOption) (*kmspb.ListCryptoKeysResponse, error) {
	if err := m.enter("ListCryptoKeys"); err != nil {
		return nil, err
	}
	off := 0
	if req.PageToken != "" {
		off, _ = strconv.Atoi(req.PageToken)
	}
	n := m.pageLen(len(m.keyOrder)-off, int(req.PageSize))
	resp := &kmspb.ListCryptoKeysResponse{TotalSize: int32(len(m.keyOrder))}
	for _, k := range m.keyOrder[off : off+n] {
		resp.CryptoKeys = append(resp.CryptoKeys, &kmspb.CryptoKey{Name: k})
	}
	if off+n < len(m.keyOrder) {
		resp.NextPageToken = strconv.Itoa(off + n)
	}
	return resp, nil
}

func (m *model) find(name string) *ver {
	for _, vs := range m.keys {
		for _, v := range vs {
			if v.name == name {
				return v
			}
		}
	}
	return nil
}

func (m *model) DestroyCryptoKeyVersion(_ context.Context, req *kmspb.DestroyCryptoKeyVersionRequest, _ ...grpc.CallOption) (*kmspb.CryptoKeyVersion, error) {
	if err := m.enter("DestroyCryptoKeyVersion"); err != nil {
		return nil, err
	}
	v := m.find(req.Name)
	if v == nil {
		return nil, status.Error(codes.NotFound, "no such version")
	}
	if v.state != kmspb.CryptoKeyVersion_ENABLED && v.state != kmspb.CryptoKeyVersion_DISABLED {
		return nil, status.Error(codes.FailedPrecondition, "version is not enabled or disabled")
	}
	v.state = kmspb.CryptoKeyVersion_DESTROY_SCHEDULED
	return &kmspb.CryptoKeyVersion{Name: v.name, State: v.state}, nil
}

func (m *model) GetCryptoKeyVersion(_ context.Context, req *kmspb.GetCryptoKeyVersionRequest, _ ...grpc.CallOption) (*kmspb.CryptoKeyVersion, error) {
	if err := m.enter("GetCryptoKeyVersion"); err != nil {
		return nil, err
	}
	v := m.find(req.Name)
	if v == nil {
		return nil, status.Error(codes.NotFound, "no such version")
	}
	if v.state == kmspb.CryptoKeyVersion_PENDING_GENERATION {
		if v.polls <= 0 {
			v.state = kmspb.CryptoKeyVersion_ENABLED
		}
		v.polls--
	}
	return &kmspb.CryptoKeyVersion{Name: v.name, State: v.state}, nil
}

func (m *model) CreateCryptoKeyVersion(_ context.Context, req *kmspb.CreateCryptoKeyVersionRequest, _ ...grpc.CallOption) (*kmspb.CryptoKeyVersion, error) {
	if err := m.enter("CreateCryptoKeyVersion"); err != nil {
		return nil, err
	}
	vs, ok := m.keys[req.Parent]
	if !ok {
		return nil, status.Error(codes.NotFound, "no such key")
	}
	v := &ver{name: fmt.Sprintf("%s/cryptoKeyVersions/%d", req.Parent, len(vs)+1), state: kmspb.CryptoKeyVersion_PENDING_GENERATION, polls: m.genPolls}
	m.keys[req.Parent] = append(vs, v)
	return &kmspb.CryptoKeyVersion{Name: v.name, State: v.state}, nil
}

func (m *model) CreateKeyRing(_ context.Context, _ *kmspb.CreateKeyRingRequest, _ ...grpc.CallOption) (*kmspb.KeyRing, error) {
	if err := m.enter("CreateKeyRing"); err != nil {
		return nil, err
	}
	return nil, status.Error(codes.AlreadyExists, "key ring exists")
}

func (m *model) CreateCryptoKey(_ context.Context, req *kmspb.CreateCryptoKeyRequest, _ ...grpc.CallOption) (*kmspb.CryptoKey, error) {
	if err := m.enter("CreateCryptoKey"); err != nil {
		return nil, err
	}
	name := req.Parent + "/cryptoKeys/" + req.CryptoKeyId
	if _, ok := m.keys[name]; ok {
		return nil, status.Error(codes.AlreadyExists, "key exists")
	}
	m.keys[name] = []*ver{{name: name + "/cryptoKeyVersions/1", state: kmspb.CryptoKeyVersion_PENDING_GENERATION, polls: m.genPolls}}
	m.keyOrder = append(m.keyOrder, name)
	return &kmspb.CryptoKey{Name: name}, nil
}

func (m *model) AsymmetricSign(_ context.Context, req *kmspb.AsymmetricSignRequest, _ ...grpc.CallOption) (*kmspb.AsymmetricSignResponse, error) {
	if err := m.enter("AsymmetricSign"); err != nil {
		return nil, err
	}
	return m.signResp(req), nil
}

var crcTable = crc32.MakeTable(crc32.Castagnoli)

func crc(b []byte) int64 { return int64(crc32.Checksum(b, crcTable)) }

const ring = "projects/p/locations/l/keyRings/r"

func manager(m *model) *gcpkms.Manager {
	return &gcpkms.Manager{Project: "p", Location: "l", KeyRingID: "r", KeyClient: m}
}

func baseCtx() context.Context {
	return output.NewContext(context.Background(), &output.Options{Quiet: true, KeepGoing: true})
}

var st = map[byte]kmspb.CryptoKeyVersion_CryptoKeyVersionState{
	'E': kmspb.CryptoKeyVersion_ENABLED, 'D': kmspb.CryptoKeyVersion_DISABLED, 'X': kmspb.CryptoKeyVersion_DESTROYED, 'P': kmspb.CryptoKeyVersion_PENDING_GENERATION,
	'S': kmspb.CryptoKeyVersion_DESTROY_SCHEDULED, 'I': kmspb.CryptoKeyVersion_PENDING_IMPORT, 'F': kmspb.CryptoKeyVersion_GENERATION_FAILED,
}

func mkModel(c *mc.Chooser, rings map[string]string, horizon int) *model {
	m := &model{c: c, keys: map[string][]*ver{}, horizon: horizon}
	for _, id := range []string{"root", "sign", "k3", "k4"} {
		states, ok := rings[id]
		if !ok {
			continue
		}
		name := ring + "/cryptoKeys/" + id
		m.keyOrder = append(m.keyOrder, name)
		m.keys[name] = nil
		for i := 0; i < len(states); i++ {
			m.keys[name] = append(m.keys[name], &ver{name: fmt.Sprintf("%s/cryptoKeyVersions/%d", name, i+1), state: st[states[i]], polls: 2})
		}
	}
	return m
}

func signCases(r *mc.Run) {
	sig := make([]byte, 64)
	for i := range sig {
		sig[i] = byte(i*7 + 3)
	}
	good := func() *kmspb.AsymmetricSignResponse {
		return &kmspb.AsymmetricSignResponse{Signature: append([]byte(nil), sig...), SignatureCrc32C: wrapperspb.Int64(crc(sig)), VerifiedDigestCrc32C: true, VerifiedDataCrc32C: true}
	}
	type variant struct {
		name string
		resp func() *kmspb.AsymmetricSignResponse
	}
	vs := []variant{{"genuine", good}}
	for bit := 0; bit < len(sig)*8; bit++ {
		bit := bit
		vs = append(vs, variant{fmt.Sprintf("sig^bit%d", bit), func() *kmspb.AsymmetricSignResponse {
			x := good()
			x.Signature[bit/8] ^= 1 << (bit % 8)
			return x
		}})
	}
	for bit := 0; bit < 64; bit++ {
		bit := bit
		vs = append(vs, variant{fmt.Sprintf("crc^bit%d", bit), func() *kmspb.AsymmetricSignResponse {
			x := good()
			x.SignatureCrc32C = wrapperspb.Int64(x.SignatureCrc32C.Value ^ int64(uint64(1)<<uint(bit)))
			return x
		}})
	}
	vs = append(vs,
		variant{"no-crc", func() *kmspb.AsymmetricSignResponse { x := good(); x.SignatureCrc32C = nil; return x }},
		variant{"digest-not-verified", func() *kmspb.AsymmetricSignResponse { x := good(); x.VerifiedDigestCrc32C = false; return x }},
		variant{"data-not-verified", func() *kmspb.AsymmetricSignResponse { x := good(); x.VerifiedDataCrc32C = false; return x }},
		variant{"nothing-verified", func() *kmspb.AsymmetricSignResponse {
			x := good()
			x.VerifiedDataCrc32C, x.VerifiedDigestCrc32C = false, false
			return x
		}},
		variant{"empty-signature-crc0", func() *kmspb.AsymmetricSignResponse {
			return &kmspb.AsymmetricSignResponse{SignatureCrc32C: wrapperspb.Int64(0), VerifiedDigestCrc32C: true, VerifiedDataCrc32C: true}
		}},
		variant{"truncated-signature", func() *kmspb.AsymmetricSignResponse { x := good(); x.Signature = x.Signature[:63]; return x }},
	)
	okOpts := &rsa.PSSOptions{SaltLength: rsa.PSSSaltLengthEqualsHash, Hash: crypto.SHA256}
	optVariants := []struct {
		name string
		o    crypto.SignerOpts
		ok   bool
	}{{"pss-sha256", okOpts, true}, {"pss-sha384", &rsa.PSSOptions{SaltLength: rsa.PSSSaltLengthEqualsHash, Hash: crypto.SHA384}, false},
		{"pss-salt-auto", &rsa.PSSOptions{SaltLength: rsa.PSSSaltLengthAuto, Hash: crypto.SHA256}, false}, {"pkcs1v15-sha256", crypto.SHA256, false}, {"nil", nil, false}}
	digest := styp.Digest{SHA256: make([]byte, 32)}
	for _, v := range vs {
		for _, ov := range optVariants {
			if ov.name != "pss-sha256" && v.name != "genuine" {
				continue
			}
			v, ov := v, ov
			id := fmt.Sprintf("sign response=%s opts=%s", v.name, ov.name)
			r.Case(id, func() string {
				var reqSeen *kmspb.AsymmetricSignRequest
				m := mkModel(mc.NewChooser(nil), nil, 10)
				m.signResp = func(req *kmspb.AsymmetricSignRequest) *kmspb.AsymmetricSignResponse { reqSeen = req; return v.resp() }
				s := &gcpkms.Signer{Manager: manager(m)}
				var out []byte
				var err error
				pan, val := mc.Guard(func() {
					out, err = s.Sign(context.Background(), ring+"/cryptoKeys/sign/cryptoKeyVersions/1", digest, ov.o)
				})
				r.Eval()
				r.Validated()
				if pan {
					r.Violation("sign/panic", id, fmt.Sprintf("Sign panicked: %v", val), nil)
					return "panic"
				}
				resp := v.resp()
				intact := resp.SignatureCrc32C != nil && crc(resp.Signature) == resp.SignatureCrc32C.Value && resp.VerifiedDataCrc32C && resp.VerifiedDigestCrc32C
				if err == nil {
					switch {
					case !ov.ok:
						r.Violation("sign/wrong-options-accepted", id, "a signature was returned for a request that is not RSA-PSS/SHA-256 with salt = hash length", nil)
					case !intact:
						r.Violation("sign/corrupted-response-accepted/"+strings.SplitN(v.name, "^", 2)[0], id, "a signature was returned although the response checksum does not match or the service did not confirm the request checksums", nil)
					case string(out) != string(resp.Signature):
						r.Violation("sign/signature-altered", id, "the returned signature is not the one in the response", nil)
					}
					if reqSeen == nil || reqSeen.DigestCrc32C == nil || reqSeen.DigestCrc32C.Value != crc(digest.SHA256) {
						r.Violation("sign/request-without-digest-crc", id, "the request did not carry the digest checksum", nil)
					}
					r.Nontrivial(id)
				} else if ov.ok && intact {
					r.Outcome("sign:intact-response-refused") // "returns a signature only if ...": a refusal is always allowed
				}
				r.Outcome(map[bool]string{true: "sign:returned", false: "sign:refused"}[err == nil])
				if r.State("sign|" + strings.SplitN(v.name, "bit", 2)[0] + "|" + ov.name + fmt.Sprint(err == nil)) {
					r.Sample(map[string]any{"case": id, "returned": err == nil, "error": fmt.Sprint(err)})
				}
				return fmt.Sprint(err)
			})
		}
	}
}

// lifecycle runs one operation on one ring under the explorer.
type scenario struct {
	op    string // bootstrap | rotate | wipeout
	rings map[string]string
	name  string
}

func runScenario(r *mc.Run, sc scenario, pageSize, bound int, pageChoices, failures bool) {
	n := 0
	for _, s := range sc.rings {
		n += len(s)
	}
	horizon := 3*(n+len(sc.rings)+2) + 10 + 40
	body := func(c *mc.Chooser) string {
		m := mkModel(c, sc.rings, horizon)
		m.pageChoices, m.failures = pageChoices, failures
		m.genPolls = 2
		mgr := manager(m)
		ctx := baseCtx()
		var got string
		var err error
		pan, val := mc.Guard(func() {
			switch sc.op {
			case "bootstrap":
				ctx = gcpkms.NewBootstrapContext(ctx, &gcpkms.BootstrapContext{RootKeyID: "root", SigningKeyID: "sign", SigningKeyOperators: []string{"a"}})
				got, err = mgr.CreateNewRootKey(ctx)
			case "rotate":
				ctx = gcpkms.NewSigningKeyContext(ctx, &gcpkms.SigningKeyContext{SigningKeyID: "sign"})
				got, err = mgr.CreateNewSigningKeyVersion(ctx)
			case "wipeout":
				err = mgr.Wipeout(ctx)
			}
		})
		r.Eval()
		r.Transition(m.calls)
		id := fmt.Sprintf("lifecycle op=%s ring=%s pagesize=%d choices=%s", sc.op, sc.name, pageSize, mc.ChoicesString(c.Choices()))
		viol := func(what, msg string) {
			r.Violation(fmt.Sprintf("%s/%s", sc.op, what), id, msg, map[string]any{"calls": len(m.log), "trace": c.Trace(), "error": fmt.Sprint(err), "tail_of_calls": tail(m.log, 12)})
		}
		if pan {
			if np, ok := val.(error); ok && strings.Contains(np.Error(), "nil pointer") {
				mc.Fatal("model KMS: unimplemented method called in %s: %v", id, val)
			}
			viol("panic", fmt.Sprintf("panicked: %v", val))
			return "panic"
		}
		r.Validated()
		if m.overHorizon {
			viol("does-not-terminate", fmt.Sprintf("more than %d service calls for a ring of %d versions: the listing/polling loop does not terminate", horizon, n))
			return "horizon"
		}
		injected := strings.Contains(c.Trace(), "fail:")
		switch sc.op {
		case "bootstrap":
			vs := m.keys[ring+"/cryptoKeys/root"]
			hasEnabled, hasPending := false, false
			for _, v := range vs {
				// states before the call are in sc.rings
				_ = v
			}
			for i := 0; i < len(sc.rings["root"]); i++ {
				if sc.rings["root"][i] == 'E' {
					hasEnabled = true
				}
				if sc.rings["root"][i] == 'P' {
					hasPending = true
				}
			}
			if err == nil {
				v := m.find(got)
				if v == nil || v.state != kmspb.CryptoKeyVersion_ENABLED {
					viol("returned-version-not-enabled", fmt.Sprintf("bootstrap returned %q which is not an ENABLED version", got))
				}
				if hasEnabled {
					idx := versionIndex(got)
					if idx < 1 || idx > len(sc.rings["root"]) || sc.rings["root"][idx-1] != 'E' {
						viol("enabled-version-overlooked", fmt.Sprintf("an ENABLED version exists but bootstrap returned %q", got))
					}
				} else if hasPending {
					idx := versionIndex(got)
					if idx < 1 || idx > len(sc.rings["root"]) || sc.rings["root"][idx-1] != 'P' {
						viol("pending-version-overlooked", fmt.Sprintf("a PENDING_GENERATION version exists but bootstrap returned %q", got))
					}
				}
				r.Nontrivial(id)
			} else if !injected && hasEnabled {
				// "bootstrap selects an enabled version": with one present and every call answered, giving
				// up means the version was not accounted for
				viol("enabled-version-overlooked", "an ENABLED version exists and the service answered every call, but bootstrap fails: "+err.Error())
			} else if !injected {
				r.Outcome("bootstrap:refused-without-fault")
			}
		case "rotate":
			if err == nil {
				v := m.find(got)
				if v == nil || v.state != kmspb.CryptoKeyVersion_ENABLED {
					viol("returned-version-not-enabled", fmt.Sprintf("rotation returned %q which is not ENABLED", got))
				}
				r.Nontrivial(id)
			} else if !injected {
				r.Outcome("rotate:refused-without-fault") // "rotation returns only an enabled version": a refusal is allowed
			}
		case "wipeout":
			// "wipeout leaves no enabled or disabled version behind": judged whenever the service answered
			// every call, whatever wipeout reports; after an injected service error only when wipeout
			// nevertheless reports success.
			if err == nil || !injected {
				for k, vs := range m.keys {
					for _, v := range vs {
						if v.state == kmspb.CryptoKeyVersion_ENABLED || v.state == kmspb.CryptoKeyVersion_DISABLED {
							viol("usable-version-left-behind", fmt.Sprintf("after wipeout (error: %v) %s of %s is still %v", err, v.name[strings.LastIndex(v.name, "/")+1:], k[strings.LastIndex(k, "/")+1:], v.state))
						}
					}
				}
				r.Nontrivial(id)
			}
		}
		sig := fmt.Sprintf("%s|%s|ps=%d|err=%v|calls=%d", sc.op, sc.name, pageSize, err != nil, m.calls)
		if r.State(sig) {
			r.Sample(map[string]any{"op": sc.op, "ring": sc.name, "page_size": pageSize, "choices": c.Trace(), "service_calls": m.calls, "error": fmt.Sprint(err), "returned": got})
		}
		r.Outcome(sc.op + map[bool]string{true: ":ok", false: ":err"}[err == nil])
		return sig
	}
	if r.Replaying() {
		pfx := fmt.Sprintf("lifecycle op=%s ring=%s pagesize=%d choices=", sc.op, sc.name, pageSize)
		if strings.HasPrefix(r.ReplayID, pfx) {
			r.Case(r.ReplayID, func() string { return body(mc.NewChooser(mc.ParseChoices(strings.TrimPrefix(r.ReplayID, pfx)))) })
		}
		return
	}
	ex := &mc.Explorer{Bound: bound, Workers: 1, Stop: r.Expired, Body: func(c *mc.Chooser) { body(c) }}
	ex.Run()
	if ex.CapHit {
		r.Cap("stopped at the internal deadline in " + sc.name)
	}
}

func tail(s []string, n int) []string {
	if len(s) > n {
		return s[len(s)-n:]
	}
	return s
}

func versionIndex(name string) int {
	i, _ := strconv.Atoi(name[strings.LastIndex(name, "/")+1:])
	return i
}

func rep(b byte, n int) string { return strings.Repeat(string(b), n) }

func withAt(s string, pos int, b byte) string {
	if pos < 0 || pos >= len(s) {
		return s
	}
	return s[:pos] + string(b) + s[pos+1:]
}

func main() {
	vhook.AfterFn = func(time.Duration) <-chan time.Time {
		ch := make(chan time.Time, 1)
		ch <- time.Time{}
		return ch
	}
	small := len(os.Args) > 2 && os.Args[1] == "worker" && os.Args[2] == "small"
	if small {
		r := mc.NewWorkerRun("C20", os.Args[3], 30*time.Minute)
		smallScope(r)
		r.ExportAndExit()
	}
	r := mc.NewRun("C20")
	r.Rule("E1 over a model KMS client: (a) signing: genuine response, every single-bit corruption of the 64-byte signature and of the 64-bit checksum, missing checksum, each verified flag cleared, truncated/empty signature, and non-PSS / non-SHA-256 / wrong-salt options; (b) lifecycle with the real page size 100: bootstrap / rotation / wipeout over rings of N in {0,1,99,100,101,199,200,201} versions, all one state with <=2 deviating positions from {ENABLED, DISABLED, DESTROYED, PENDING_GENERATION, DESTROY_SCHEDULED, PENDING_IMPORT, GENERATION_FAILED}, page lengths chosen by the explorer within a deviation bound, service errors at each call (bound 1); (c) small scope (page-size constant rewritten to 3 by the overlay): all rings of <=5 (thorough 7) versions over {E,D,X,P} with every legal paging behaviour; states = distinct (operation, ring, outcome, call count); non-trivial = distinct executions that completed successfully under a non-default environment answer or on a ring with mixed states")
	r.Assume("the model KMS implements the documented List contract: at most page_size items per page, next_page_token empty iff nothing remains, total_size set; short pages with a token are legal")
	r.Assume("small-scope argument for paging: the loops are parametric in the page-size constant, so all rings/pagings at page size 3 stand for the same code at 100")
	signCases(r)
	// (b) structured rings at the real page size.
	sizes := []int{0, 1, 99, 100, 101, 199, 200, 201}
	devStates := []byte{'E', 'D', 'X', 'P', 'S', 'I', 'F'}
	bound := mc.Pick(r, 1, 2)
	var scs []scenario
	for _, n := range sizes {
		for _, baseSt := range []byte{'X', 'E', 'D'} {
			ringS := rep(baseSt, n)
			variants := map[string]bool{ringS: true}
			for _, d := range devStates {
				for _, pos := range []int{0, n - 1, 99, 100} {
					variants[withAt(ringS, pos, d)] = true
					if r.Thorough() {
						for _, d2 := range []byte{'E', 'P'} {
							for _, pos2 := range []int{0, n - 1, 100, 199} {
								variants[withAt(withAt(ringS, pos, d), pos2, d2)] = true
							}
						}
					}
				}
			}
			for v := range variants {
				name := fmt.Sprintf("N=%d:%s", n, compress(v))
				scs = append(scs, scenario{"bootstrap", map[string]string{"root": v}, name})
				scs = append(scs, scenario{"wipeout", map[string]string{"root": v, "sign": "E"}, name})
			}
		}
	}
	scs = append(scs, scenario{"rotate", map[string]string{"sign": "E"}, "sign=E"}, scenario{"rotate", map[string]string{"sign": rep('X', 100) + "E"}, "sign=X*100,E"})
	// Many keys in the ring (ListCryptoKeys paging).
	manyKeys := map[string]string{}
	_ = manyKeys
	// shard scenarios over worker processes? They are cheap; run in-process in parallel.
	par := runtime.GOMAXPROCS(0)
	sem := make(chan struct{}, par)
	done := make(chan struct{}, len(scs))
	for _, sc := range scs {
		sc := sc
		sem <- struct{}{}
		go func() {
			defer func() { <-sem; done <- struct{}{} }()
			runScenario(r, sc, 100, bound, true, false)
			if !strings.Contains(sc.name, "N=2") && !strings.Contains(sc.name, "N=19") { // service errors on the small and boundary rings
				runScenario(r, sc, 100, 1, false, true)
			}
		}()
	}
	for range scs {
		<-done
	}
	r.Set("structured_scenarios", len(scs))
	// (c) small-scope binary.
	if bin := os.Getenv("VERIF_C20S_BIN"); bin != "" && !r.Replaying() {
		cmd := exec.Command(bin, "worker", "small", r.Tier)
		cmd.Env = os.Environ()
		out, err := cmd.CombinedOutput()
		imported := false
		for _, l := range strings.Split(string(out), "\n") {
			if strings.HasPrefix(l, "VERIF-WORKER-RESULT ") {
				if e := r.Import([]byte(strings.TrimPrefix(l, "VERIF-WORKER-RESULT "))); e == nil {
					imported = true
				}
			}
		}
		if !imported {
			r.Degraded(fmt.Sprintf("small-scope (page size 3) variant did not run: %v %s", err, tailStr(string(out), 300)))
		}
	} else if !r.Replaying() {
		r.Degraded("small-scope (page size 3) variant not built")
	}
	r.Finish()
}

func tailStr(s string, n int) string {
	if len(s) > n {
		return s[len(s)-n:]
	}
	return s
}

func compress(s string) string {
	if len(s) <= 12 {
		return s
	}
	var b strings.Builder
	i := 0
	for i < len(s) {
		j := i
		for j < len(s) && s[j] == s[i] {
			j++
		}
		if j-i > 3 {
			fmt.Fprintf(&b, "%c*%d,", s[i], j-i)
		} else {
			b.WriteString(s[i:j] + ",")
		}
		i = j
	}
	return strings.TrimSuffix(b.String(), ",")
}

// smallScope runs in the binary built with keyPageSize = 3: all rings up to a size bound over
// {E,D,X,P}, every paging behaviour (unbounded choice tree).
func smallScope(r *mc.Run) {
	maxN := 5
	if r.Tier == "thorough" {
		maxN = 7
	}
	alphabet := []byte{'E', 'D', 'X', 'P'}
	multiBound := 1
	if r.Tier == "thorough" {
		multiBound = 2
	}
	var rings []string
	var rec func(cur string)
	rec = func(cur string) {
		rings = append(rings, cur)
		if len(cur) == maxN {
			return
		}
		for _, a := range alphabet {
			rec(cur + string(a))
		}
	}
	rec("")
	par := runtime.GOMAXPROCS(0)
	sem := make(chan struct{}, par)
	done := make(chan struct{}, len(rings))
	for _, rg := range rings {
		rg := rg
		sem <- struct{}{}
		go func() {
			defer func() { <-sem; done <- struct{}{} }()
			runScenario(r, scenario{"bootstrap", map[string]string{"root": rg}, "small:" + rg}, 3, -1, true, false)
			runScenario(r, scenario{"wipeout", map[string]string{"root": rg, "sign": "ED", "k3": "X", "k4": "E"}, "small:" + rg}, 3, -1, true, false)
			// several keys that need more than one page each: their (offset-style) page tokens coincide
			runScenario(r, scenario{"wipeout", map[string]string{"root": rg, "sign": "EDEDE", "k3": "X", "k4": "EEEE"}, "small-multipage:" + rg}, 3, multiBound, true, false)
		}()
	}
	for range rings {
		<-done
	}
	r.Set("small_scope_rings", len(rings))
	r.Set("small_scope_page_size", 3)
	_ = errors.New
}
