// C15 — dry-run and measurement-only runs have no side effects.
//
// Engine E5: the full product of {dry_run} x {measurement_only} x {technologies} x {snapshot dir} x
// {candidate} x {overwrite} x {VMSA count} x {machine shapes} is executed on the real
// endorse.VirtualFirmware with recording CertificateAuthority, Signer, VersionControl and
// ChangeOps doubles and captured standard output, and through the endorse CLI with --dry_run /
// --measurement_only over localnonvcs on disk.
package main

import (
	"bytes"
	"context"
	"crypto"
	"crypto/rand"
	"crypto/sha256"
	"encoding/hex"
	"fmt"
	"io"
	"os"
	"path/filepath"
	"sort"
	"strings"

	"github.com/google/gce-tcb-verifier/cmd"
	"github.com/google/gce-tcb-verifier/cmd/output"
	"github.com/google/gce-tcb-verifier/endorse"
	"github.com/google/gce-tcb-verifier/keys"
	epb "github.com/google/gce-tcb-verifier/proto/endorsement"
	"github.com/google/gce-tcb-verifier/sev"
	"github.com/google/gce-tcb-verifier/sign/memca"
	styp "github.com/google/gce-tcb-verifier/sign/types"
	"github.com/google/gce-tcb-verifier/tdx"
	"github.com/google/gce-tcb-verifier/testing/nonprod/localnonvcs"
	"github.com/google/gce-tcb-verifier/testing/nonprod/memkm"
	sgpb "github.com/google/go-sev-guest/proto/sevsnp"
	"google.golang.org/protobuf/proto"

	"verifharness/fx"
	"verifharness/kmfx"
	"verifharness/mc"
)

type rec struct{ log []string }

func (r *rec) add(s string) { r.log = append(r.log, s) }
func (r *rec) count(prefix string) int {
	n := 0
	for _, l := range r.log {
		if strings.HasPrefix(l, prefix) {
			n++
		}
	}
	return n
}

type recCA struct {
	styp.CertificateAuthority
	r *rec
}

func (c *recCA) Certificate(ctx context.Context, k string) ([]byte, error) {
	c.r.add("ca.Certificate")
	return c.CertificateAuthority.Certificate(ctx, k)
}
func (c *recCA) CABundle(ctx context.Context, k string) ([]byte, error) {
	c.r.add("ca.CABundle")
	return c.CertificateAuthority.CABundle(ctx, k)
}
func (c *recCA) PrimaryRootKeyVersion(ctx context.Context) (string, error) {
	c.r.add("ca.PrimaryRootKeyVersion")
	return c.CertificateAuthority.PrimaryRootKeyVersion(ctx)
}
func (c *recCA) PrimarySigningKeyVersion(ctx context.Context) (string, error) {
	c.r.add("ca.PrimarySigningKeyVersion")
	return c.CertificateAuthority.PrimarySigningKeyVersion(ctx)
}

type recSigner struct {
	styp.Signer
	r       *rec
	digests [][]byte
}

func (s *recSigner) Sign(ctx context.Context, k string, d styp.Digest, o crypto.SignerOpts) ([]byte, error) {
	s.r.add("signer.Sign")
	s.digests = append(s.digests, append([]byte(nil), d.SHA256...))
	return s.Signer.Sign(ctx, k, d, o)
}
func (s *recSigner) PublicKey(ctx context.Context, k string) ([]byte, error) {
	s.r.add("signer.PublicKey")
	return s.Signer.PublicKey(ctx, k)
}

type recVCS struct {
	r     *rec
	files map[string][]byte
}
type recOps struct{ v *recVCS }

func (v *recVCS) GetChangeOps(context.Context) (endorse.ChangeOps, error) {
	v.r.add("vcs.GetChangeOps")
	return &recOps{v}, nil
}
func (v *recVCS) RetriableError(error) bool                      { return false }
func (v *recVCS) Result(c any, p string)                         { v.r.add(fmt.Sprintf("vcs.Result(%v)", c)) }
func (v *recVCS) ReleasePath(_ context.Context, p string) string { return p }
func (o *recOps) WriteOrCreateFiles(_ context.Context, fs ...*endorse.File) error {
	for _, f := range fs {
		o.v.r.add("ops.Write:" + f.Path)
		o.v.files[f.Path] = f.Contents
	}
	return nil
}
func (o *recOps) ReadFile(_ context.Context, p string) ([]byte, error) {
	o.v.r.add("ops.Read:" + p)
	if b, ok := o.v.files[p]; ok {
		return b, nil
	}
	return nil, os.ErrNotExist
}
func (o *recOps) SetBinaryWritable(_ context.Context, p string) error {
	o.v.r.add("ops.Chmod:" + p)
	return nil
}
func (o *recOps) IsNotFound(err error) bool { return os.IsNotExist(err) }
func (o *recOps) Destroy()                  { o.v.r.add("ops.Destroy") }
func (o *recOps) TryCommit(context.Context) (any, error) {
	o.v.r.add("ops.TryCommit")
	return "commit", nil
}

type cfg struct {
	dry, mo    bool
	snp, tdxOn bool
	snapshot   string
	cand       string
	overwrite  bool
	vmsas      uint32
	shapes     []string
	pre        bool // endorsement file already present
	// how the version-control back end reaches the run: "" = Context.VCS only; "vcss1"/"vcss2" =
	// Context.VCSs seeded with one/two back ends (the documented transition mode); "after-real" = a
	// real run on the same Context first (it leaves Context.VCSs populated), then this run.
	how string
}

func (c cfg) String() string {
	return fmt.Sprintf("dry=%v mo=%v snp=%v tdx=%v snapshot=%q cand=%q overwrite=%v vmsas=%d shapes=%v preexisting=%v vcs=%q", c.dry, c.mo, c.snp, c.tdxOn, c.snapshot, c.cand, c.overwrite, c.vmsas, c.shapes, c.pre, c.how)
}

type result struct {
	err    error
	panic  any
	stdout string
	log    []string
	digest [][]byte
	files  map[string][]byte
}

var stdoutMu = make(chan struct{}, 1)

func captureStdout(f func()) string {
	stdoutMu <- struct{}{}
	defer func() { <-stdoutMu }()
	old := os.Stdout
	rd, wr, err := os.Pipe()
	if err != nil {
		mc.Fatal("pipe: %v", err)
	}
	os.Stdout = wr
	done := make(chan string)
	go func() {
		b, _ := io.ReadAll(rd)
		done <- string(b)
	}()
	func() {
		defer func() {
			os.Stdout = old
			wr.Close()
		}()
		f()
	}()
	return <-done
}

func run(auth *fx.Authority, image []byte, c cfg, dry, mo bool) result {
	r := &rec{}
	v := &recVCS{r: r, files: map[string][]byte{}}
	if c.pre {
		base := c.cand
		if base == "" {
			base = "endorsement"
		}
		v.files["out/"+base+".binarypb"] = []byte("previous")
		v.files["snap/fw.fd.signed"] = []byte("previous")
	}
	sg := &recSigner{Signer: auth.Signer, r: r}
	kc := &keys.Context{CA: &recCA{auth.CA, r}, Signer: sg, Random: rand.Reader}
	ec := &endorse.Context{Image: image, ClSpec: 7, Timestamp: fx.T0, VCS: v, OutDir: "out", CandidateName: c.cand,
		DryRun: dry, MeasurementOnly: mo, SnapshotDir: c.snapshot, ImageName: "fw.fd"}
	if c.snp {
		ec.SevSnp = &sev.SnpEndorsementRequest{LaunchVmsas: c.vmsas, ImageID: "87654321-dead-beef-c0de-123456789abc", Product: sgpb.SevProduct_SEV_PRODUCT_MILAN, Svn: 3}
	}
	if c.tdxOn {
		ec.Tdx = &tdx.EndorsementRequest{MachineShapes: c.shapes, Svn: 3}
	}
	ctx := output.NewContext(keys.NewContext(context.Background(), kc), &output.Options{Quiet: true, Overwrite: c.overwrite})
	ctx = endorse.NewContext(ctx, ec)
	var res result
	switch c.how {
	case "vcss1":
		ec.VCSs = []endorse.VersionControl{v}
	case "vcss2":
		ec.VCSs = []endorse.VersionControl{v, &recVCS{r: r, files: v.files}}
	case "after-real":
		if dry || mo {
			ec.DryRun, ec.MeasurementOnly = false, false
			octx := output.NewContext(ctx, &output.Options{Quiet: true, Overwrite: true})
			captureStdout(func() { mc.Guard(func() { endorse.VirtualFirmware(endorse.NewContext(octx, ec)) }) })
			ec.DryRun, ec.MeasurementOnly = dry, mo
			for k := range v.files {
				v.files[k] = []byte("previous")
			}
			r.log = nil
			sg.digests = nil
		}
	}
	res.stdout = captureStdout(func() {
		p, val := mc.Guard(func() { res.err = endorse.VirtualFirmware(ctx) })
		if p {
			res.panic = val
		}
	})
	res.log = r.log
	res.digest = sg.digests
	res.files = v.files
	return res
}

// measurementsOf extracts the set of measurement hex strings of a signed endorsement.
func measurementsOf(files map[string][]byte) (map[string]bool, []byte) {
	out := map[string]bool{}
	for k, b := range files {
		if !(strings.HasSuffix(k, ".binarypb") || strings.HasSuffix(k, ".signed")) || string(b) == "previous" {
			continue
		}
		e := &epb.VMLaunchEndorsement{}
		g := &epb.VMGoldenMeasurement{}
		if proto.Unmarshal(b, e) != nil || proto.Unmarshal(e.SerializedUefiGolden, g) != nil {
			continue
		}
		for n, m := range g.GetSevSnp().GetMeasurements() {
			out[fmt.Sprintf("snp:%d:%s", n, hex.EncodeToString(m))] = true
		}
		for _, m := range g.GetTdx().GetMeasurements() {
			out[fmt.Sprintf("tdx:%d:%v:%s", m.RamGib, !m.EarlyAccept, hex.EncodeToString(m.Mrtd))] = true
		}
		d := sha256.Sum256(e.SerializedUefiGolden)
		return out, d[:]
	}
	return out, nil
}

// parsePrinted turns measurement-only output into the same key set.
func parsePrinted(s string, c cfg) map[string]bool {
	out := map[string]bool{}
	for _, line := range strings.Split(strings.TrimSpace(s), "\n") {
		line = strings.TrimSpace(line)
		if line == "" {
			continue
		}
		if strings.HasPrefix(line, "RAM:") {
			var ram int
			var un bool
			var mrtd string
			fmt.Sscanf(line, "RAM:%d UnacceptedMemory:%t MRTD:%s", &ram, &un, &mrtd)
			out[fmt.Sprintf("tdx:%d:%v:%s", ram, un, mrtd)] = true
			continue
		}
		f := strings.Fields(line)
		if len(f) == 2 {
			out[fmt.Sprintf("snp:%s:%s", f[0], f[1])] = true
		} else if len(f) == 1 {
			out[fmt.Sprintf("snp:%d:%s", c.vmsas, f[0])] = true
		}
	}
	return out
}

func keysOf(m map[string]bool) []string {
	var out []string
	for k := range m {
		out = append(out, k)
	}
	sort.Strings(out)
	return out
}

func main() {
	r := mc.NewRun("C15")
	r.Rule("E5 full product: {dry_run, measurement_only, both} x technologies {snp, tdx, both} x snapshot dir {none, snap} x candidate {'', x} x overwrite x VMSA count {0, 2, 3, 256, 1024} x machine shapes {none, c3-standard-4} x {endorsement file already present or not}, each also with Context.VCSs seeded and after a real run on the same Context, each compared with a real run of the same configuration; recording CA/signer/VCS/ChangeOps doubles; plus the endorse CLI with --dry_run/--measurement_only over localnonvcs; non-trivial = distinct configurations whose real run succeeds and signs at least one measurement")
	defer kmfx.Cleanup()
	auth, err := fx.NewAuthority(fx.T0, "c15")
	if err != nil {
		mc.Fatal("%v", err)
	}
	image := fx.SmallImage(0x3000)
	var cfgs []cfg
	for _, mode := range [][2]bool{{true, false}, {false, true}, {true, true}} {
		for _, tech := range [][2]bool{{true, false}, {false, true}, {true, true}} {
			for _, snap := range []string{"", "snap"} {
				for _, cand := range []string{"", "x"} {
					for _, ow := range []bool{false, true} {
						// 3: a valid launch count outside the GCE-supported list; 256 and 1024: beyond one byte
						for _, vm := range []uint32{0, 2, 3, 256, 1024} {
							for _, sh := range [][]string{nil, {"c3-standard-4"}} {
								for _, pre := range []bool{false, true} {
									if !tech[0] && vm != 0 {
										continue
									}
									if !tech[1] && sh != nil {
										continue
									}
									for _, how := range []string{"", "vcss1", "vcss2", "after-real"} {
										if how != "" && (vm != 0 || sh != nil) {
											continue // the back-end wiring does not depend on the measurement options
										}
										cfgs = append(cfgs, cfg{dry: mode[0], mo: mode[1], snp: tech[0], tdxOn: tech[1], snapshot: snap, cand: cand, overwrite: ow, vmsas: vm, shapes: sh, pre: pre, how: how})
									}
								}
							}
						}
					}
				}
			}
		}
	}
	for _, c := range cfgs {
		c := c
		id := "lib " + c.String()
		r.Case(id, func() string {
			// Reference: the real run on a store without pre-existing files always succeeds.
			refCfg := c
			refCfg.pre = false
			refCfg.how = ""
			ref := run(auth, image, refCfg, false, false)
			if ref.err != nil || ref.panic != nil {
				mc.Fatal("reference real run failed for %s: %v %v", c, ref.err, ref.panic)
			}
			want, wantDigest := measurementsOf(ref.files)
			got := run(auth, image, c, c.dry, c.mo)
			r.Eval()
			viol := func(what, msg string) {
				r.Violation("lib/"+what, id, msg, map[string]any{"calls": got.log, "error": fmt.Sprint(got.err), "panic": fmt.Sprint(got.panic)})
			}
			mode := map[bool]string{true: "dry-run", false: "measurement-only"}[c.dry && !c.mo]
			if c.dry && c.mo {
				mode = "dry-run+measurement-only"
			}
			if got.panic != nil {
				viol("panic/"+mode, fmt.Sprintf("%s endorse run panicked: %v", mode, got.panic))
				return "panic"
			}
			if got.err != nil {
				viol("fails/"+mode, fmt.Sprintf("%s endorse run failed: %v (the real run of the same configuration succeeds)", mode, got.err))
			}
			n := func(p string) int { return (&rec{log: got.log}).count(p) }
			if n("vcs.GetChangeOps") > 0 {
				viol("workspace-created/"+mode, "a workspace was created")
			}
			if n("ops.Write") > 0 || n("ops.Chmod") > 0 {
				viol("file-written/"+mode, "a file was written or its mode changed")
			}
			if n("ops.TryCommit") > 0 {
				viol("committed/"+mode, "something was committed")
			}
			if c.pre {
				for k, b := range got.files {
					if string(b) != "previous" {
						viol("file-written/"+mode, "pre-existing file "+k+" changed")
					}
				}
			}
			if c.mo {
				if n("ca.") > 0 || n("signer.") > 0 {
					viol("keys-touched/measurement-only", "measurement-only touched the certificate authority or the signer")
				}
				printed := parsePrinted(got.stdout, c)
				if fmt.Sprint(keysOf(printed)) != fmt.Sprint(keysOf(want)) && got.err == nil {
					viol("measurements-differ/measurement-only", fmt.Sprintf("printed measurements %v differ from what a real run signs %v", keysOf(printed), keysOf(want)))
				}
			} else if got.err == nil {
				// Go's protobuf marshals map fields in random order, so the signed bytes of two runs
				// are only comparable when the SNP table has at most one entry.
				comparable := !c.snp || c.vmsas != 0
				if len(got.digest) != 1 || (comparable && !bytes.Equal(got.digest[0], wantDigest)) {
					viol("signed-digest-differs/dry-run", "the document handed to the signer in dry-run differs from the one a real run signs")
				}
			}
			r.Validated()
			if len(want) > 0 {
				r.Nontrivial(id)
			}
			sig := fmt.Sprintf("%s tech=%v/%v err=%v calls=%d", mode, c.snp, c.tdxOn, got.err != nil, len(got.log))
			if r.State(sig) {
				r.Sample(map[string]any{"config": c.String(), "calls": got.log, "stdout_lines": strings.Count(got.stdout, "\n"), "measurements_of_real_run": len(want)})
			}
			r.Outcome(mode + map[bool]string{true: ":ok", false: ":err"}[got.err == nil])
			return fmt.Sprintf("err=%v log=%v stdout=%q", got.err, got.log, got.stdout)
		})
	}
	cliChecks(r, image)
	r.Finish()
}

// cliChecks drives the endorse CLI flags over localnonvcs on disk with the development keys.
func cliChecks(r *mc.Run, image []byte) {
	root := filepath.Join(kmfx.ScratchRoot(), "c15cli")
	os.MkdirAll(root, 0o755)
	fw := filepath.Join(root, "fw.fd")
	os.WriteFile(fw, image, 0o644)
	listing := func(dir string) []string {
		var out []string
		filepath.Walk(dir, func(p string, info os.FileInfo, err error) error {
			// everything under the (empty) output root counts, directories included: for the on-disk
			// back end the directory tree is the workspace
			if err == nil && p != dir {
				rel, _ := filepath.Rel(dir, p)
				if info.IsDir() {
					rel += "/"
				}
				out = append(out, rel)
			}
			return nil
		})
		sort.Strings(out)
		return out
	}
	for _, flags := range [][]string{{"--dry_run"}, {"--measurement_only"}, {"--dry_run", "--measurement_only"}} {
		for _, tech := range [][]string{{"--add_snp"}, {"--add_tdx"}, {"--add_snp", "--add_tdx"}} {
			for _, snap := range [][]string{nil, {"--snapshot_dir=snap"}} {
				flags, tech, snap := flags, tech, snap
				id := fmt.Sprintf("cli %v %v %v", flags, tech, snap)
				r.Case(id, func() string {
					out := filepath.Join(root, fmt.Sprintf("out-%d", len(id)+len(fmt.Sprint(flags, tech, snap))))
					os.RemoveAll(out)
					os.MkdirAll(out, 0o755)
					km := memkm.TestOnlyT()
					app := &cmd.AppComponents{
						Global:          cmd.Compose(km, memca.TestOnlyCertificateAuthority()),
						Endorse:         &localnonvcs.T{},
						Bootstrap:       &cmd.PartialComponent{},
						SignatureRandom: rand.Reader,
					}
					rootCmd := cmd.MakeApp(context.Background(), app)
					args := append([]string{"endorse", "--uefi=" + fw, "--out_root=" + out, "--out_dir=d", "--clspec=9", "--timestamp=2025-03-01T12:00:00Z", "--snp_launch_vmsas=1", "--quiet"}, flags...)
					args = append(append(args, tech...), snap...)
					rootCmd.SetArgs(args)
					rootCmd.SetOut(io.Discard)
					rootCmd.SetErr(io.Discard)
					rootCmd.SilenceErrors, rootCmd.SilenceUsage = true, true
					var runErr error
					var pv any
					stdout := captureStdout(func() {
						p, val := mc.Guard(func() { runErr = rootCmd.Execute() })
						if p {
							pv = val
						}
					})
					r.Eval()
					files := listing(out)
					if pv != nil {
						r.Violation("cli/panic/"+strings.Join(flags, "+"), id, fmt.Sprintf("endorse %v panicked: %v", flags, pv), nil)
					} else if runErr != nil {
						r.Violation("cli/fails/"+strings.Join(flags, "+"), id, fmt.Sprintf("endorse %v failed: %v", flags, runErr), nil)
					}
					if len(files) > 0 {
						r.Violation("cli/file-written/"+strings.Join(flags, "+"), id, fmt.Sprintf("endorse %v left %v under the output root", flags, files), nil)
					}
					r.Validated()
					r.Nontrivial(id)
					r.Outcome("cli" + map[bool]string{true: ":ok", false: ":err"}[runErr == nil && pv == nil])
					return fmt.Sprintf("err=%v panic=%v files=%v stdout=%q", runErr, pv, files, stdout)
				})
			}
		}
	}
}
