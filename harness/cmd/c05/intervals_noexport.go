//go:build noexport

package main

import "verifharness/mc"

func intervalCheck(r *mc.Run) {
	r.Degraded("interval sub-check (overlay export of ovmf.unacceptedMemRanges did not build)")
}
