//go:build !noexport

package main

import (
	"fmt"

	"github.com/google/gce-tcb-verifier/ovmf"

	"verifharness/mc"
	"verifharness/ref"
)

// sets enumerates all sets of <=k pairwise-disjoint non-empty intervals over [0,n), as ordered
// lists in ascending order.
func sets(n uint64, k int) [][]ref.Interval {
	var out [][]ref.Interval
	var rec func(from uint64, cur []ref.Interval)
	rec = func(from uint64, cur []ref.Interval) {
		out = append(out, append([]ref.Interval(nil), cur...))
		if len(cur) == k {
			return
		}
		for s := from; s < n; s++ {
			for l := uint64(1); s+l <= n; l++ {
				rec(s+l, append(cur, ref.Interval{Start: s, Length: l}))
			}
		}
	}
	rec(0, nil)
	return out
}

func intervalCheck(r *mc.Run) {
	const n = 8
	all := sets(n, 3)
	r.Set("interval_sets", len(all))
	r.ParallelFor(len(all), func(i int) {
		priv := all[i]
		for _, ram := range all {
			// input order must not matter: ascending and reversed (with a zero-length entry mixed in)
			for variant := 0; variant < 2; variant++ {
				p, q := priv, ram
				if variant == 1 {
					p = append([]ref.Interval{{Start: 3, Length: 0}}, reverse(priv)...)
					q = reverse(ram)
				}
				id := fmt.Sprintf("intervals private=%v ram=%v variant=%d", priv, ram, variant)
				r.Case(id, func() string {
					var got []ref.Interval
					pan, val := mc.Guard(func() { got = fromGPR(ovmf.VerifUnacceptedMemRanges(toGPR(p), toGPR(q))) })
					r.Eval()
					if pan {
						r.Violation("intervals/panic", id, fmt.Sprintf("unacceptedMemRanges panicked: %v", val), nil)
						return "panic"
					}
					want := ref.UnacceptedBitmap(priv, ram, n)
					want2 := ref.Unaccepted(priv, ram)
					r.Validated()
					if fmt.Sprint(want) != fmt.Sprint(want2) {
						mc.Fatal("reference models disagree on %s: %v vs %v", id, want, want2)
					}
					if fmt.Sprint(got) != fmt.Sprint(want) {
						r.Violation("intervals/differs-from-bitmap", id, fmt.Sprintf("unacceptedMemRanges = %v, RAM minus private is %v", got, want), nil)
					}
					if len(priv) > 0 && len(ram) > 0 && len(want) > 0 {
						r.Nontrivial(fmt.Sprintf("iv %v %v", priv, ram))
					}
					return fmt.Sprint(got)
				})
			}
		}
	})
}

func reverse(in []ref.Interval) []ref.Interval {
	out := make([]ref.Interval, len(in))
	for i, v := range in {
		out[len(in)-1-i] = v
	}
	return out
}
