// C05 — the TDX golden MRTD equals the TDX build-time measurement of the TDVF layout.
//
// Engine E5: (i) the interval subtraction that derives unaccepted memory is compared with a bitmap
// model on all pairs of small interval sets (overlay export of ovmf.unacceptedMemRanges);
// (ii) firmware images with every ordering of valid TDVF section lists, extension attributes,
// hand-off sizes, RAM bank lists (every GCE machine shape, synthetic banks cutting through
// sections) and the three launch modes are measured by the real tdx.MRTD and
// ovmf.ExtractMaterialGuestPhysicalRegions* and by an independent reference (harness/ref/tdx.go).
package main

import (
	"bytes"
	"fmt"

	"github.com/google/gce-tcb-verifier/ovmf"
	"github.com/google/gce-tcb-verifier/ovmf/abi"
	epb "github.com/google/gce-tcb-verifier/proto/endorsement"
	"github.com/google/gce-tcb-verifier/tdx"

	"verifharness/fx"
	"verifharness/mc"
	"verifharness/ref"
)

var shapes = []string{"c3-standard-4", "c3-standard-8", "c3-standard-22", "c3-standard-44", "c3-standard-88", "c3-standard-176"}

func toGPR(in []ref.Interval) []ovmf.GuestPhysicalRegion {
	var out []ovmf.GuestPhysicalRegion
	for _, i := range in {
		out = append(out, ovmf.GuestPhysicalRegion{Start: abi.EFIPhysicalAddress(i.Start), Length: i.Length})
	}
	return out
}

func fromGPR(in []ovmf.GuestPhysicalRegion) []ref.Interval {
	var out []ref.Interval
	for _, i := range in {
		out = append(out, ref.Interval{Start: uint64(i.Start), Length: i.Length})
	}
	return out
}

type layout struct {
	name string
	secs []fx.TdxSection
}

func perms(n int) [][]int {
	var out [][]int
	mc.Permutations(n, func(p []int) { out = append(out, p) })
	return out
}

func main() {
	r := mc.NewRun("C05")
	r.Rule("E5: (i) all pairs of sets of <=3 pairwise-disjoint intervals over 8 cells (every input order) for unacceptedMemRanges vs a bitmap model and the reference; (ii) images of 3 pages with firmware-volume splits {BFV 3 pages; CFV 1 + BFV 2; BFV 1 + CFV 2} + hand-off block (1 or 2 pages) + 0..2 temp-memory ranges, in every section order, every extension-attribute assignment, x RAM banks {none, each of the six GCE shapes, two synthetic lists cutting through sections} x three launch modes; (iii) UnsignedTDX rows for ordered shape lists x early accept; (iv) hand-off lists of 1363..2800 descriptors (one-page banks, 256 KiB hand-off section) x three modes; MRTD and returned regions compared with the reference; non-trivial = distinct (layout, order, attributes, banks, mode) accepted by both with equal digests")
	r.Assume("the early-accept attribute below 4 GiB follows the rule documented next to the attribute in the code (not in the TDX module specification)")
	r.Assume("validity of TDVF metadata is the precondition of the statement; digests are compared when both the implementation and the reference accept the image")
	intervalCheck(r)
	shapeCheck(r)
	rowsCheck(r)

	const size = 0x3000
	top := uint64(1) << 32
	fvLayouts := []layout{
		{"bfv3", []fx.TdxSection{{DataOffset: 0, DataSize: size, MemoryBase: top - size, MemorySize: size, Type: 0}}},
		{"bfv3-below-top", []fx.TdxSection{{DataOffset: 0, DataSize: size, MemoryBase: top - 0x10000, MemorySize: size, Type: 0}}},
		{"cfv1+bfv2", []fx.TdxSection{{DataOffset: 0, DataSize: 0x1000, MemoryBase: top - size, MemorySize: 0x1000, Type: 1}, {DataOffset: 0x1000, DataSize: 0x2000, MemoryBase: top - 0x2000, MemorySize: 0x2000, Type: 0}}},
		{"bfv1+cfv2", []fx.TdxSection{{DataOffset: 0, DataSize: 0x1000, MemoryBase: top - size, MemorySize: 0x1000, Type: 0}, {DataOffset: 0x1000, DataSize: 0x2000, MemoryBase: top - 0x2000, MemorySize: 0x2000, Type: 1}}},
	}
	temps := [][]fx.TdxSection{nil, {{MemoryBase: 0x800000, MemorySize: 0x2000, Type: 3}}, {{MemoryBase: 0x800000, MemorySize: 0x2000, Type: 3}, {MemoryBase: 0x810000, MemorySize: 0x1000, Type: 3}}}
	hobs := []fx.TdxSection{{MemoryBase: 0x809000, MemorySize: 0x1000, Type: 2}, {MemoryBase: 0x809000, MemorySize: 0x2000, Type: 2}}
	type bankSet struct {
		name  string
		banks []ref.Interval
	}
	bankSets := []bankSet{{"none", nil}}
	for _, s := range shapes {
		bankSets = append(bankSets, bankSet{s, ref.ShapeBanks(s)})
	}
	bankSets = append(bankSets,
		bankSet{"cut-through-hob", []ref.Interval{{0, 0x809800 &^ 0xfff}, {0x80a000, 0x10000}}},
		bankSet{"two-banks-around-4G", []ref.Interval{{0x100000, 0x900000}, {top - 0x1000, 0x2000}, {top + 0x100000, 0x100000}}},
		bankSet{"bank-ending-exactly-at-4G", []ref.Interval{{top - 0x2000, 0x2000}, {top, 0x3000}}},
		bankSet{"zero-length+unsorted", []ref.Interval{{top, 0x1000}, {0x5000, 0}, {0, 0x1000000}}},
	)
	var jobs []func()
	for _, fl := range fvLayouts {
		for _, hob := range hobs {
			for _, tp := range temps {
				secs := append(append(append([]fx.TdxSection(nil), fl.secs...), hob), tp...)
				orders := perms(len(secs))
				if !r.Thorough() && len(orders) > 24 {
					// quick: every rotation and the reversal of each (thorough: all orders)
					var sel [][]int
					n := len(secs)
					for s := 0; s < n; s++ {
						a, b := make([]int, n), make([]int, n)
						for i := 0; i < n; i++ {
							a[i] = (s + i) % n
							b[i] = (s + n - i) % n
						}
						sel = append(sel, a, b)
					}
					orders = sel
				}
				for _, ord := range orders {
					for attrMask := 0; attrMask < 1<<len(secs); attrMask++ {
						if !r.Thorough() && len(secs) >= 4 && attrMask%3 != 0 {
							continue
						}
						for _, bs := range bankSets {
							for mode := ref.ModeDefault; mode <= ref.ModeLegacyMeasureAllEarlyAccept; mode++ {
								if mode == ref.ModeDefault && bs.name != "none" {
									continue
								}
								fl, hob, ord, attrMask, bs, mode := fl, hob, ord, attrMask, bs, mode
								nTemp := len(tp)
								jobs = append(jobs, func() {
									var ordered []fx.TdxSection
									for k, i := range ord {
										s := secs[i]
										if attrMask&(1<<k) != 0 {
											s.Attributes = 1
										}
										ordered = append(ordered, s)
									}
									id := fmt.Sprintf("layout=%s hob=%#x temps=%d order=%v attrs=%#b banks=%s mode=%d", fl.name, hob.MemorySize, nTemp, ord, attrMask, bs.name, mode)
									oneImage(r, id, size, ordered, bs.banks, mode)
								})
							}
						}
					}
				}
			}
		}
	}
	// Scale: hand-off lists longer than 64 KiB (more than 1365 descriptors), which no machine shape
	// produces but the format admits - many small RAM banks and a hand-off section large enough to
	// hold their descriptors. The counts sit on both sides of the 16-bit and of twice the 16-bit
	// boundary of the list length.
	for _, n := range []int{1363, 1364, 1365, 1500, 2729, 2730, 2800} {
		bigHob := fx.TdxSection{MemoryBase: 0x809000, MemorySize: 0x40000, Type: 2}
		var many []ref.Interval
		for i := 0; i < n; i++ {
			many = append(many, ref.Interval{Start: 0x1000000 + uint64(i)*0x2000, Length: 0x1000})
		}
		for _, hobAttr := range []uint32{0, 1} {
			for mode := ref.ModeDefault; mode <= ref.ModeLegacyMeasureAllEarlyAccept; mode++ {
				n, hobAttr, mode := n, hobAttr, mode
				jobs = append(jobs, func() {
					h := bigHob
					h.Attributes = hobAttr
					secs := append(append([]fx.TdxSection(nil), fvLayouts[0].secs...), h)
					id := fmt.Sprintf("layout=bfv3 hob=%#x(attr=%d) temps=0 banks=%d-one-page-banks mode=%d", h.MemorySize, hobAttr, n, mode)
					oneImage(r, id, size, secs, many, mode)
				})
			}
		}
	}
	r.ParallelFor(len(jobs), func(i int) { jobs[i]() })
	r.Finish()
}

func oneImage(r *mc.Run, id string, size int, secs []fx.TdxSection, banks []ref.Interval, mode ref.TdxMode) {
	r.Case(id, func() string {
		img, _ := fx.Build(fx.ImageSpec{Size: size, Fill: fx.PatternFill, ResetAddr: 0xff0000ff, Sev: fx.DefaultSev(), Tdx: secs, SevMetaAt: 0x800, TdxMetaAt: 0x400})
		opts := &tdx.LaunchOptions{}
		switch mode {
		case ref.ModeLegacyMeasureAll:
			opts = &tdx.LaunchOptions{GuestRAMBanks: toGPR(banks), MeasureAllRegions: true}
		case ref.ModeLegacyMeasureAllEarlyAccept:
			opts = &tdx.LaunchOptions{GuestRAMBanks: toGPR(banks), MeasureAllRegions: true, DisableUnacceptedMemory: true}
		}
		var got [48]byte
		var err error
		var regs []*ovmf.MaterialGuestPhysicalRegion
		var rerr error
		pan, val := mc.Guard(func() {
			got, err = tdx.MRTD(opts, img)
			switch mode {
			case ref.ModeDefault:
				regs, rerr = ovmf.ExtractMaterialGuestPhysicalRegions(img)
			case ref.ModeLegacyMeasureAll:
				regs, rerr = ovmf.ExtractMaterialGuestPhysicalRegionsTDHOBBug(img, toGPR(banks))
			default:
				regs, rerr = ovmf.ExtractMaterialGuestPhysicalRegionsNoUnacceptedMemory(img, toGPR(banks))
			}
		})
		r.Eval()
		if pan {
			r.Outcome("panic")
			return fmt.Sprintf("panic: %v", val)
		}
		viol := func(what, msg string) { r.Violation(what, id, msg, nil) }
		rsecs, perr := ref.ParseTdx(img)
		if perr == nil {
			perr = ref.TdxValid(img, rsecs)
		}
		if perr != nil {
			mc.Fatal("harness generated an image the reference considers invalid: %v (%s)", perr, id)
		}
		rr, rrErr := ref.Regions(img, rsecs, banks, mode)
		r.Validated()
		if rrErr != nil {
			// e.g. the hand-off block does not fit: the implementation must not produce a digest.
			if err == nil {
				viol("digest-for-unbuildable-handoff", "MRTD returned a digest although the hand-off block does not fit its section")
			}
			r.Outcome("reject:handoff-too-large")
			r.Nontrivial("reject:handoff-too-large")
			return "reject"
		}
		want, _ := ref.MRTD(rr)
		if err != nil {
			// The TDVF design guide gives temporary memory no initial contents and attribute 0; a
			// temp-memory section flagged for extension is outside "valid metadata" and may be refused.
			if mode == ref.ModeDefault {
				for _, s := range secs {
					if s.Type == 3 && s.Attributes&1 != 0 {
						r.Outcome("reject:tempmem-flagged-for-extension")
						r.Nontrivial("reject:tempmem-flagged-for-extension")
						return "reject"
					}
				}
			}
			r.Outcome("valid-image-refused") // a refusal computes no MRTD; counted only
			return "reject"
		}
		if got != want {
			viol("mrtd-differs-from-definition", fmt.Sprintf("MRTD = %x, definition gives %x", got[:8], want[:8]))
		}
		if rerr != nil || len(regs) != len(rr) {
			viol("regions-differ", fmt.Sprintf("returned %d regions (err %v), reference has %d", len(regs), rerr, len(rr)))
		} else {
			for i, g := range regs {
				w := rr[i]
				if uint64(g.GPR.Start) != w.Base || g.GPR.Length != w.Size {
					viol("regions-differ", fmt.Sprintf("region %d is [%#x,+%#x), reference [%#x,+%#x)", i, g.GPR.Start, g.GPR.Length, w.Base, w.Size))
				}
				if w.Data != nil && w.Extend && !bytes.Equal(g.HostBuffer, w.Data) {
					viol("region-contents-differ", fmt.Sprintf("contents of region %d at %#x differ from the reference", i, w.Base))
				}
			}
		}
		r.Nontrivial(id)
		r.Outcome("accept")
		if r.State(fmt.Sprintf("mode=%d nsec=%d banks=%d", mode, len(secs), len(banks))) {
			r.Sample(map[string]any{"case": id, "mrtd": fmt.Sprintf("%x", got[:]), "regions": len(rr)})
		}
		return fmt.Sprintf("%x", got)
	})
}

// rowsCheck drives the entry point that computes several MRTDs in one call (one row per machine
// shape, with and without early accept, plus the default row): every ordered list of 1-2 (thorough
// 3) distinct shapes x early accept. Each row, identified by its own (RAM size, early-accept) label,
// must equal the reference MRTD of that launch configuration - whatever was computed before it in
// the same call.
func rowsCheck(r *mc.Run) {
	img := fx.SmallImage(0x3000)
	secs, err := ref.ParseTdx(img)
	if err != nil {
		mc.Fatal("reference cannot parse the baseline image: %v", err)
	}
	mr := func(banks []ref.Interval, mode ref.TdxMode) []byte {
		rr, err := ref.Regions(img, secs, banks, mode)
		if err != nil {
			mc.Fatal("reference regions: %v", err)
		}
		d, err := ref.MRTD(rr)
		if err != nil {
			mc.Fatal("reference MRTD: %v", err)
		}
		return d[:]
	}
	var lists [][]string
	var rec func(cur []string)
	maxLen := mc.Pick(r, 2, 3)
	rec = func(cur []string) {
		if len(cur) > 0 {
			lists = append(lists, append([]string(nil), cur...))
		}
		if len(cur) == maxLen {
			return
		}
	next:
		for _, s := range shapes {
			for _, c := range cur {
				if c == s {
					continue next
				}
			}
			rec(append(cur, s))
		}
	}
	rec(nil)
	r.Set("shape_lists", len(lists))
	var jobs []func()
	for _, l := range lists {
		for _, early := range []bool{false, true} {
			l, early := l, early
			id := fmt.Sprintf("rows shapes=%v early=%v", l, early)
			jobs = append(jobs, func() {
				r.Case(id, func() string {
					var out *epb.VMTdx
					var err error
					pan, val := mc.Guard(func() {
						out, err = tdx.UnsignedTDX(append([]byte(nil), img...), &tdx.EndorsementRequest{MachineShapes: l, IncludeEarlyAccept: early})
					})
					r.Eval()
					if pan || err != nil {
						r.Outcome("rows:refused")
						return fmt.Sprint("refused ", err, val)
					}
					r.Validated()
					byRAM := map[uint32][]ref.Interval{}
					for _, s := range l {
						byRAM[ref.ShapeRAMGiB(s)] = ref.ShapeBanks(s)
					}
					for i, m := range out.Measurements {
						var want []byte
						switch banks, known := byRAM[m.RamGib]; {
						case m.RamGib == 0 && !m.EarlyAccept:
							want = mr(nil, ref.ModeDefault)
						case known && m.EarlyAccept:
							want = mr(banks, ref.ModeLegacyMeasureAllEarlyAccept)
						case known:
							want = mr(banks, ref.ModeLegacyMeasureAll)
						default:
							continue // a row for a configuration nobody asked for is C06's business
						}
						if !bytes.Equal(m.Mrtd, want) {
							r.Violation("rows/mrtd-differs-from-definition", id, fmt.Sprintf("row %d (RAM %d GiB, early accept %v) is %x, the definition gives %x", i, m.RamGib, m.EarlyAccept, m.Mrtd, want), nil)
						}
					}
					r.Nontrivial(id)
					r.Outcome("rows:compared")
					return fmt.Sprint(len(out.Measurements))
				})
			})
		}
	}
	r.ParallelFor(len(jobs), func(i int) { jobs[i]() })
}

func shapeCheck(r *mc.Run) {
	for _, s := range shapes {
		got := fromGPR(tdx.LaunchOptionsDefaultTDHOBBug(s).GuestRAMBanks)
		want := ref.ShapeBanks(s)
		r.Eval()
		r.Validated()
		if fmt.Sprint(got) != fmt.Sprint(want) {
			r.Violation("shape-banks-differ/"+s, "shape "+s, fmt.Sprintf("RAM banks for %s are %v, documented layout gives %v", s, got, want), nil)
		}
		r.Nontrivial("shape " + s)
	}
}
