// C06 — the signed document describes exactly the supplied image.
//
// Engine E5: endorsement requests (technology subsets, VMSA counts, products, machine-shape lists
// with and without early accept, SVN, ids, SVSM input, provenance, timestamps) over images valid
// for both, one, or neither technology are enumerated with up to N non-default fields; every entry
// of the document returned by the real endorse.GoldenMeasurement / endorse.SignDoc is compared
// with an independent computation over the same bytes (harness/ref).
package main

import (
	"bytes"
	"context"
	"crypto/sha512"
	"fmt"
	"sort"
	"strings"
	"time"

	"github.com/google/gce-tcb-verifier/endorse"
	epb "github.com/google/gce-tcb-verifier/proto/endorsement"
	"github.com/google/gce-tcb-verifier/sev"
	"github.com/google/gce-tcb-verifier/tdx"
	"github.com/google/gce-tcb-verifier/timeproto"
	sgpb "github.com/google/go-sev-guest/proto/sevsnp"
	"github.com/google/uuid"
	"google.golang.org/protobuf/proto"

	"verifharness/att"
	"verifharness/fx"
	"verifharness/mc"
	"verifharness/ref"
)

// gceCounts restates the documented list of VMSA counts sold on GCE (n2d machine types + 1).
var gceCounts = []uint32{1, 2, 4, 8, 16, 24, 32, 48, 64, 80, 96, 112, 128, 224, 240}

const gceFamily = "f73a6949-e8f3-473b-9553-e40e056fa3a2"

type req struct {
	img        int
	snp, tdxOn bool
	vmsas      uint32
	product    sgpb.SevProduct_SevProductName
	shapes     []string
	early      bool
	svn        uint32
	family     string
	imageID    string
	svsm       []byte
	clspec     uint64
	commit     []byte
	ts         time.Time
}

func (q req) String() string {
	return fmt.Sprintf("img=%d snp=%v tdx=%v vmsas=%d product=%v shapes=%v early=%v svn=%d family=%q image=%q svsm=%d clspec=%d commit=%d ts=%s",
		q.img, q.snp, q.tdxOn, q.vmsas, q.product, q.shapes, q.early, q.svn, q.family, q.imageID, len(q.svsm), q.clspec, len(q.commit), q.ts.Format(time.RFC3339))
}

type dev struct {
	name  string
	apply func(*req)
}

func main() {
	r := mc.NewRun("C06")
	k := mc.Pick(r, 3, 4)
	r.Rule(fmt.Sprintf("E5 deviation lattice: a baseline request (both technologies, all GCE VMSA counts, Milan, no shapes) plus every subset of <=%d of the deviations {technology subsets, VMSA count 1/2/5/240, Genoa / unknown product, shape lists (single, pair, duplicate, unknown shape, upper-case and blank-prefixed spellings), early accept, SVN, family/image ids valid/invalid, SVSM measurement, commit instead of changelist, timestamps, image valid for one technology only / neither, a 133-page firmware}; non-trivial = distinct requests for which a document was produced and every entry matched the reference", k))
	auth, err := fx.NewAuthority(fx.T0, "c06")
	if err != nil {
		mc.Fatal("%v", err)
	}
	const size = 0x3000
	both := fx.SmallImage(size)
	snpOnly, _ := fx.Build(fx.ImageSpec{Size: size, Fill: fx.PatternFill, ResetAddr: 0xff0000ff, Sev: fx.DefaultSev(), NoTdx: true, SevMetaAt: 0x800})
	tdxOnly, _ := fx.Build(fx.ImageSpec{Size: size, Fill: fx.PatternFill, ResetAddr: 0xff0000ff, Sev: []fx.SevSection{{0x1000, 0x1000, 1}}, Tdx: fx.SmallTdx(size), SevMetaAt: 0x800, TdxMetaAt: 0x400})
	neither := make([]byte, size)
	// a firmware of realistic size whose page count (133) is not a multiple of any stripe width a
	// measurement loop might use; the reference walks it page by page
	large := fx.SmallImage(0x85000)
	images := [][]byte{both, snpOnly, tdxOnly, neither, large}
	base := req{snp: true, tdxOn: true, product: sgpb.SevProduct_SEV_PRODUCT_MILAN, clspec: 77, ts: fx.T0}
	devs := []dev{
		{"snp-only", func(q *req) { q.tdxOn = false }},
		{"tdx-only", func(q *req) { q.snp = false }},
		{"no-tech", func(q *req) { q.snp, q.tdxOn = false, false }},
		{"vmsas=1", func(q *req) { q.vmsas = 1 }},
		{"vmsas=2", func(q *req) { q.vmsas = 2 }},
		{"vmsas=5", func(q *req) { q.vmsas = 5 }},
		{"vmsas=240", func(q *req) { q.vmsas = 240 }},
		{"genoa", func(q *req) { q.product = sgpb.SevProduct_SEV_PRODUCT_GENOA }},
		{"product-unknown", func(q *req) { q.product = sgpb.SevProduct_SEV_PRODUCT_UNKNOWN }},
		{"shape=c3-4", func(q *req) { q.shapes = []string{"c3-standard-4"} }},
		{"shapes=c3-88,c3-8", func(q *req) { q.shapes = []string{"c3-standard-88", "c3-standard-8"} }},
		{"shapes=dup", func(q *req) { q.shapes = []string{"c3-standard-22", "c3-standard-22"} }},
		{"shapes=all", func(q *req) {
			q.shapes = []string{"c3-standard-4", "c3-standard-8", "c3-standard-22", "c3-standard-44", "c3-standard-88", "c3-standard-176"}
		}},
		{"shape=unknown", func(q *req) { q.shapes = []string{"n2d-standard-2"} }},
		// spellings a flag list produces easily; they may be refused, or be taken for the shape they
		// spell - but then the row must be that shape's (size and MRTD), not a placeholder
		{"shape=UPPERCASE", func(q *req) { q.shapes = []string{"C3-STANDARD-4"} }},
		{"shapes=blank-after-comma", func(q *req) { q.shapes = []string{"c3-standard-4", " c3-standard-8"} }},
		{"early", func(q *req) { q.early = true }},
		{"svn=7", func(q *req) { q.svn = 7 }},
		{"family=custom", func(q *req) { q.family = "11111111-2222-3333-4444-555555555555" }},
		{"family=invalid", func(q *req) { q.family = "not-a-guid" }},
		{"image=valid", func(q *req) { q.imageID = "87654321-dead-beef-c0de-123456789abc" }},
		{"image=invalid", func(q *req) { q.imageID = "zz" }},
		{"svsm", func(q *req) { q.svsm = att.Meas(0x5e) }},
		{"commit", func(q *req) { q.clspec, q.commit = 0, bytes.Repeat([]byte{0xc0}, 20) }},
		{"ts+1y", func(q *req) { q.ts = fx.T0.Add(365 * 24 * time.Hour) }},
		{"img=snp-only-valid", func(q *req) { q.img = 1 }},
		{"img=tdx-only-valid", func(q *req) { q.img = 2 }},
		{"img=neither", func(q *req) { q.img = 3 }},
		{"img=large-133-pages", func(q *req) { q.img = 4 }},
	}
	var cases []struct {
		q    req
		name string
	}
	mc.Subsets(len(devs), k, func(idx []int) {
		q := base
		var ns []string
		for _, i := range idx {
			devs[i].apply(&q)
			ns = append(ns, devs[i].name)
		}
		cases = append(cases, struct {
			q    req
			name string
		}{q, strings.Join(ns, "+")})
	})
	// Reference digests are cached per (image, count, width) / (image, banks, mode).
	r.ParallelFor(len(cases), func(i int) {
		c := cases[i]
		id := "request=[" + c.name + "]"
		r.Case(id, func() string { return one(r, auth, images, c.q, id) })
	})
	r.Set("deviation_menu", len(devs))
	r.Finish()
}

func width(p sgpb.SevProduct_SevProductName) uint {
	switch p {
	case sgpb.SevProduct_SEV_PRODUCT_MILAN:
		return 48
	case sgpb.SevProduct_SEV_PRODUCT_GENOA:
		return 52
	}
	return 0
}

func one(r *mc.Run, auth *fx.Authority, images [][]byte, q req, id string) string {
	img := images[q.img]
	ec := &endorse.Context{Image: append([]byte(nil), img...), ClSpec: q.clspec, Commit: q.commit, Timestamp: q.ts, SvsmSnpMeasurement: q.svsm}
	if q.snp {
		ec.SevSnp = &sev.SnpEndorsementRequest{Svn: q.svn, FamilyID: q.family, ImageID: q.imageID, LaunchVmsas: q.vmsas, Product: q.product}
	}
	if q.tdxOn {
		ec.Tdx = &tdx.EndorsementRequest{Svn: q.svn, IncludeEarlyAccept: q.early, MachineShapes: q.shapes}
	}
	ctx := endorse.NewContext(auth.Ctx(), ec)
	var g *epb.VMGoldenMeasurement
	var err error
	pan, val := mc.Guard(func() { g, err = endorse.GoldenMeasurement(ctx) })
	r.Eval()
	viol := func(what, msg string) {
		r.Violation(what, id, msg, map[string]any{"request": q.String(), "error": fmt.Sprint(err)})
	}
	if pan {
		viol("panic", fmt.Sprintf("GoldenMeasurement panicked: %v", val))
		return "panic"
	}
	// ---- reference -------------------------------------------------------------------
	var mustFail []string
	if !q.snp && !q.tdxOn {
		mustFail = append(mustFail, "no technology requested")
	}
	wantSnp := map[uint32][48]byte{}
	if q.snp {
		counts := gceCounts
		if q.vmsas != 0 {
			counts = []uint32{q.vmsas}
		}
		if q.family != "" {
			if _, e := uuid.Parse(q.family); e != nil {
				mustFail = append(mustFail, "invalid family id")
			}
		}
		if q.imageID != "" {
			if _, e := uuid.Parse(q.imageID); e != nil {
				mustFail = append(mustFail, "invalid image id")
			}
		}
		if width(q.product) == 0 {
			mustFail = append(mustFail, "unsupported product")
		} else {
			for _, n := range counts {
				d, e := ref.LaunchDigest(img, int(n), width(q.product))
				if e != nil {
					mustFail = append(mustFail, "SNP measurement fails: "+e.Error())
					break
				}
				wantSnp[n] = d
			}
		}
	}
	type row struct {
		ram   uint32
		early bool
		mrtd  [48]byte
	}
	var wantTdx []row
	if q.tdxOn {
		secs, e := ref.ParseTdx(img)
		if e == nil {
			e = ref.TdxValid(img, secs)
		}
		if e != nil {
			mustFail = append(mustFail, "TDX measurement fails: "+e.Error())
		} else {
			mr := func(banks []ref.Interval, mode ref.TdxMode) [48]byte {
				rg, e := ref.Regions(img, secs, banks, mode)
				if e != nil {
					mc.Fatal("reference regions: %v", e)
				}
				d, _ := ref.MRTD(rg)
				return d
			}
			for _, s := range q.shapes {
				if c := strings.ToLower(strings.TrimSpace(s)); ref.ShapeRAMGiB(s) == 0 && ref.ShapeRAMGiB(c) != 0 {
					s = c // if the tool accepts this spelling at all, it stands for the shape it spells
				}
				if ref.ShapeRAMGiB(s) == 0 {
					mustFail = append(mustFail, "unknown machine shape "+s)
					continue
				}
				wantTdx = append(wantTdx, row{ref.ShapeRAMGiB(s), false, mr(ref.ShapeBanks(s), ref.ModeLegacyMeasureAll)})
				if q.early {
					wantTdx = append(wantTdx, row{ref.ShapeRAMGiB(s), true, mr(ref.ShapeBanks(s), ref.ModeLegacyMeasureAllEarlyAccept)})
				}
			}
			wantTdx = append(wantTdx, row{0, false, mr(nil, ref.ModeDefault)})
		}
	}
	r.Validated()
	if len(mustFail) > 0 {
		if err == nil {
			what := mustFail[0]
			if i := strings.Index(what, ":"); i > 0 {
				what = what[:i]
			}
			if strings.HasPrefix(what, "unknown machine shape") {
				what = "unknown machine shape"
			}
			viol("document-despite-failure/"+what, fmt.Sprintf("a document was produced although %s", strings.Join(mustFail, "; ")))
		}
		r.Outcome("no-document")
		r.Nontrivial("no-document:" + mustFail[0])
		return "no document: " + fmt.Sprint(err)
	}
	if err != nil {
		r.Outcome("measurable-request-refused") // the statement is about what gets signed; a refusal signs nothing
		return "error"
	}
	// ---- compare the unsigned document ------------------------------------------------
	d := sha512.Sum384(img)
	if !bytes.Equal(g.Digest, d[:]) {
		viol("digest-not-of-image", "digest is not the SHA-384 of the supplied image bytes")
	}
	if g.ClSpec != q.clspec || !bytes.Equal(g.Commit, q.commit) {
		viol("provenance-not-echoed", "changelist/commit differ from the request")
	}
	if (g.SevSnp != nil) != q.snp || (g.Tdx != nil) != q.tdxOn {
		viol("technology-sections-differ", "document sections do not match the requested technologies")
	}
	if q.snp && g.SevSnp != nil {
		var have, want []uint32
		for n := range g.SevSnp.Measurements {
			have = append(have, n)
		}
		for n := range wantSnp {
			want = append(want, n)
		}
		sort.Slice(have, func(i, j int) bool { return have[i] < have[j] })
		sort.Slice(want, func(i, j int) bool { return want[i] < want[j] })
		if fmt.Sprint(have) != fmt.Sprint(want) {
			viol("snp-counts-differ", fmt.Sprintf("document lists VMSA counts %v, request implies %v", have, want))
		}
		for n, w := range wantSnp {
			if m, ok := g.SevSnp.Measurements[n]; ok && !bytes.Equal(m, w[:]) {
				viol("snp-measurement-not-of-image", fmt.Sprintf("measurement for %d VMSAs is %x…, launch digest of the image is %x…", n, m[:6], w[:6]))
			}
		}
		fam := gceFamily
		if q.family != "" {
			fam = q.family
		}
		fu := uuid.MustParse(fam)
		if !bytes.Equal(g.SevSnp.FamilyId, fu[:]) {
			viol("family-id-not-echoed", "family id differs from the request/default")
		}
		if q.imageID != "" {
			iu := uuid.MustParse(q.imageID)
			if !bytes.Equal(g.SevSnp.ImageId, iu[:]) {
				viol("image-id-not-echoed", "image id differs from the request")
			}
		} else if len(g.SevSnp.ImageId) != 16 {
			r.Outcome("no-image-id-generated") // only requested ids are covered by the statement
		}
		if g.SevSnp.Svn != q.svn {
			viol("svn-not-echoed", "SEV-SNP SVN differs from the request")
		}
		if !bytes.Equal(g.SevSnp.SvsmMeasurement, q.svsm) {
			viol("svsm-not-echoed", "SVSM measurement differs from the request")
		}
	}
	if q.tdxOn && g.Tdx != nil {
		if g.Tdx.Svn != q.svn {
			viol("svn-not-echoed", "TDX SVN differs from the request")
		}
		if len(g.Tdx.Measurements) != len(wantTdx) {
			viol("tdx-rows-differ", fmt.Sprintf("document has %d TDX rows, request implies %d", len(g.Tdx.Measurements), len(wantTdx)))
		} else {
			for i, w := range wantTdx {
				m := g.Tdx.Measurements[i]
				if m.RamGib != w.ram || m.EarlyAccept != w.early {
					viol("tdx-rows-differ", fmt.Sprintf("row %d is (ram %d, early %v), want (ram %d, early %v)", i, m.RamGib, m.EarlyAccept, w.ram, w.early))
				} else if !bytes.Equal(m.Mrtd, w.mrtd[:]) {
					kind := "tdx-mrtd-not-of-image"
					if bytes.Equal(m.Mrtd, make([]byte, 48)) {
						kind = "tdx-mrtd-placeholder"
					}
					viol(kind, fmt.Sprintf("row %d (ram %d, early %v) has MRTD %x…, measurement of the image is %x…", i, w.ram, w.early, m.Mrtd[:6], w.mrtd[:6]))
				}
			}
		}
	}
	// ---- sign and parse back ------------------------------------------------------------
	unsigned := proto.Clone(g).(*epb.VMGoldenMeasurement)
	var e *epb.VMLaunchEndorsement
	var serr error
	pan, val = mc.Guard(func() { e, serr = endorse.SignDoc(ctx, g) })
	if pan || serr != nil {
		r.Outcome("signdoc-refused") // a refusal signs nothing
		return "signdoc"
	}
	back := &epb.VMGoldenMeasurement{}
	if proto.Unmarshal(e.SerializedUefiGolden, back) != nil {
		viol("payload-unparseable", "signed payload does not parse")
		return "payload"
	}
	if !timeproto.From(back.Timestamp).Equal(q.ts) {
		viol("timestamp-not-echoed", "signed timestamp differs from the request")
	}
	if !bytes.Equal(back.Cert, auth.SignCert.Raw) || len(back.CaBundle) == 0 {
		viol("certificate-not-embedded", "signed payload lacks the signing certificate or bundle")
	}
	stripped := proto.Clone(back).(*epb.VMGoldenMeasurement)
	stripped.Cert, stripped.CaBundle, stripped.Timestamp = unsigned.Cert, unsigned.CaBundle, unsigned.Timestamp
	if !proto.Equal(stripped, unsigned) {
		viol("signed-differs-from-measured", "the signed payload differs from the measured document beyond certificate, bundle and timestamp")
	}
	r.Nontrivial(id)
	r.Outcome("document")
	if r.State(fmt.Sprintf("snp=%v tdx=%v nsnp=%d ntdx=%d", q.snp, q.tdxOn, len(wantSnp), len(wantTdx))) {
		r.Sample(map[string]any{"request": q.String(), "snp_entries": len(wantSnp), "tdx_rows": len(wantTdx)})
	}
	_ = context.Background
	return "document"
}
