// C11 — the certificate-authority store is consistent at every crash point.
//
// Engine E4: the object-write log of a first bootstrap and of each later rotation is recorded
// from the real code over a logging storage client; every permutation of each run of pending
// certificate uploads inside one Finalize (the only order the code leaves to Go's map iteration)
// and every prefix of every permuted log is materialised as a crash store, reloaded through a
// fresh authority (in memory and on local disk through localca) and checked.
package main

import (
	"context"
	"crypto/x509"
	"fmt"
	"os"
	"path/filepath"
	"strings"
	"sync"
	"time"

	"github.com/google/gce-tcb-verifier/cmd"
	"github.com/google/gce-tcb-verifier/cmd/output"
	"github.com/google/gce-tcb-verifier/keys"
	"github.com/google/gce-tcb-verifier/sign/gcsca"
	"github.com/google/gce-tcb-verifier/sign/nonprod"
	sops "github.com/google/gce-tcb-verifier/sign/ops"
	"github.com/google/gce-tcb-verifier/storage/local"
	"github.com/google/gce-tcb-verifier/testing/nonprod/localca"
	"github.com/google/gce-tcb-verifier/testing/nonprod/localkm"
	"github.com/google/gce-tcb-verifier/testing/nonprod/memkm"

	"verifharness/fx"
	"verifharness/kmfx"
	"verifharness/mc"
)

type history struct {
	name string
	pre  *kmfx.Store     // store before the operation
	log  []kmfx.WriteRec // writes of the operation
}

func names(log []kmfx.WriteRec) string {
	var s []string
	for _, w := range log {
		s = append(s, w.Object)
	}
	return strings.Join(s, " > ")
}

// certRuns returns the maximal runs [i,j) of consecutive writes into the certificate directory.
func certRuns(log []kmfx.WriteRec) [][2]int {
	var out [][2]int
	i := 0
	for i < len(log) {
		if strings.HasPrefix(log[i].Object, kmfx.CertDir+"/") {
			j := i
			for j < len(log) && strings.HasPrefix(log[j].Object, kmfx.CertDir+"/") {
				j++
			}
			out = append(out, [2]int{i, j})
			i = j
		} else {
			i++
		}
	}
	return out
}

// permutedLogs enumerates every log obtained by permuting each certificate-upload run.
func permutedLogs(log []kmfx.WriteRec) [][]kmfx.WriteRec {
	logs := [][]kmfx.WriteRec{append([]kmfx.WriteRec(nil), log...)}
	for _, run := range certRuns(log) {
		var next [][]kmfx.WriteRec
		n := run[1] - run[0]
		for _, l := range logs {
			mc.Permutations(n, func(p []int) {
				c := append([]kmfx.WriteRec(nil), l...)
				for k, src := range p {
					c[run[0]+k] = l[run[0]+src]
				}
				next = append(next, c)
			})
		}
		logs = next
	}
	return logs
}

func materialise(pre *kmfx.Store, log []kmfx.WriteRec, k int) *kmfx.Store {
	s := pre.Clone()
	for _, w := range log[:k] {
		s.Objects[w.Bucket+"/"+w.Object] = w.Data
		s.Buckets[w.Bucket] = true
	}
	return s
}

// problems checks one crash store; returns violations as (kind, message).
func problems(s *kmfx.Store, now time.Time, onDisk bool) [][2]string {
	var out [][2]string
	w := &kmfx.World{Kind: kmfx.MemGcs, Store: s, Signer: &nonprod.Signer{}}
	st := w.Inspect()
	if st.LoadErr != "" {
		return [][2]string{{"manifest-unparseable", st.LoadErr}}
	}
	for k := range st.Entries {
		if st.Certs[k] == nil {
			out = append(out, [2]string{"manifest-ahead-of-certificate", fmt.Sprintf("manifest lists %q -> %s but %s", k, st.Entries[k], st.CertErr[k])})
		}
	}
	if p := st.PrimaryName; p != "" {
		c := st.Certs[p]
		switch {
		case c == nil:
			out = append(out, [2]string{"primary-without-certificate", fmt.Sprintf("recorded primary %q has no stored, parseable certificate (%s)", p, st.CertErr[p])})
		case st.Root == nil:
			out = append(out, [2]string{"primary-without-root", fmt.Sprintf("recorded primary %q but the root certificate object is missing or unparseable (%s)", p, st.RootErr)})
		default:
			pool := x509.NewCertPool()
			pool.AddCert(st.Root)
			if _, err := c.Verify(x509.VerifyOptions{Roots: pool, CurrentTime: now, KeyUsages: []x509.ExtKeyUsage{x509.ExtKeyUsageAny}}); err != nil {
				out = append(out, [2]string{"primary-not-under-stored-root", fmt.Sprintf("certificate of recorded primary %q does not verify under the stored root: %v", p, err)})
			}
		}
		// The same through a fresh authority object (the code path endorsing uses).
		ca := &gcsca.CertificateAuthority{Storage: s, PrivateBucket: kmfx.Bucket, RootPath: kmfx.RootPath, SigningCertDirInGCS: kmfx.CertDir}
		ctx := output.NewContext(context.Background(), &output.Options{Quiet: true})
		if got, err := ca.PrimarySigningKeyVersion(ctx); err != nil || got != p {
			out = append(out, [2]string{"reload-disagrees", fmt.Sprintf("fresh authority reports primary %q, %v; manifest says %q", got, err, p)})
		} else if err := sops.VerifyChain(ctx, ca, p, now); err != nil && len(out) == 0 {
			// VerifyChain demands code-signing usage compatibility; only report if the plain check passed.
			if _, e2 := ca.Certificate(ctx, p); e2 != nil {
				out = append(out, [2]string{"reload-certificate-fails", e2.Error()})
			}
		}
		if onDisk && len(out) == 0 {
			if msg := reloadOnDisk(s); msg != "" {
				out = append(out, [2]string{"localca-startup-check-fails", msg})
			}
		}
	}
	return out
}

var diskSeq int

// reloadOnDisk writes the crash store through storage/local and runs localca's start-up check.
func reloadOnDisk(s *kmfx.Store) string {
	diskSeq++
	dir := filepath.Join(kmfx.ScratchRoot(), fmt.Sprintf("c11-%d", diskSeq))
	defer os.RemoveAll(dir)
	os.MkdirAll(filepath.Join(dir, "keys"), 0o755)
	st := &local.StorageClient{Root: filepath.Join(dir, "buckets")}
	ctx := output.NewContext(context.Background(), &output.Options{Quiet: true})
	for _, n := range s.Names(kmfx.Bucket) {
		b, _ := s.Get(kmfx.Bucket, n)
		w, err := st.Writer(ctx, kmfx.Bucket, n)
		if err != nil {
			return "local storage writer: " + err.Error()
		}
		w.Write(b)
		w.Close()
	}
	kc := &keys.Context{}
	ctx = keys.NewContext(ctx, kc)
	km := &localkm.T{T: memkm.T{Signer: &nonprod.Signer{}}, KeyDir: filepath.Join(dir, "keys")}
	ca := &localca.T{CA: &gcsca.CertificateAuthority{Storage: st, PrivateBucket: kmfx.Bucket, RootPath: kmfx.RootPath, SigningCertDirInGCS: kmfx.CertDir}}
	if _, err := cmd.ComposeInitContext(ctx, km, ca); err != nil {
		return err.Error()
	}
	return ""
}

// longHistory is the scale probe: one store that lives through hundreds of rotations, until its
// manifest is well past 64 KiB (the Cloud KMS key manager over the model service, whose long key
// version names make the manifest grow fast, one long-lived set of objects, key material from the
// model's pool). The store is judged at every crash point of every rotation like the short
// histories (in recorded write order; in memory only - copying hundreds of objects to disk per
// crash point adds nothing the short histories do not already cover).
func longHistory(r *mc.Run, t0, now time.Time) {
	const stopAt = 80 << 10
	replaying := r.Replaying() && strings.HasPrefix(r.ReplayID, "history=long/")
	if r.Replaying() && !replaying {
		return
	}
	kmfx.PoolKMSKeys = true
	kmfx.WarmKeyPool(kmfx.PoolSize)
	w := kmfx.NewWorld(kmfx.GcpGcs)
	w.OneProcess = true
	if err := w.Bootstrap(kmfx.DefaultBootstrap(t0), kmfx.Flags{}, nil); err != nil {
		mc.Fatal("long history bootstrap: %v", err)
	}
	type job struct {
		h history
		n int
	}
	jobs := make(chan job, 16)
	var wg sync.WaitGroup
	for i := 0; i < 12; i++ {
		wg.Add(1)
		go func() {
			defer wg.Done()
			for j := range jobs {
				for k := 0; k <= len(j.h.log); k++ {
					h, k := j.h, k
					id := fmt.Sprintf("history=%s order=%s prefix=%d", h.name, names(h.log), k)
					r.Case(id, func() string {
						s := materialise(h.pre, h.log, k)
						ps := problems(s, now, false)
						r.Eval()
						for _, p := range ps {
							r.Violation("long-history/"+p[0], id, fmt.Sprintf("crash after write %d of [%s] in rotation %d (manifest %d bytes): %s", k, names(h.log), j.n, manifestSize(s), p[1]), nil)
						}
						if k > 0 && k < len(h.log) {
							r.Nontrivial(id)
						}
						r.Outcome("long-history")
						return fmt.Sprint(ps)
					})
				}
			}
		}()
	}
	n, size := 0, 0
	for size < stopAt && n < 1500 {
		n++
		h, err := record(fmt.Sprintf("long/rotation-%d", n), w, func() error {
			_, e := w.Rotate(kmfx.RotateOpts{Now: t0.Add(time.Duration(n) * time.Minute)}, kmfx.Flags{}, nil)
			return e
		})
		if len(h.log) > 0 {
			jobs <- job{h, n}
		}
		if err != nil {
			// not a clause of the statement; the stores it left behind are judged above
			r.Set("long_history_stopped_at", fmt.Sprintf("rotation %d: %v", n, err))
			break
		}
		size = manifestSize(w.Store)
	}
	close(jobs)
	wg.Wait()
	r.Set("long_history_rotations", n)
	r.Set("long_history_final_manifest_bytes", size)
	if size < 70<<10 && !replaying {
		r.Cap(fmt.Sprintf("the long history ended with a manifest of %d bytes (wanted more than 64 KiB)", size))
	}
}

func manifestSize(s *kmfx.Store) int {
	m := 0
	for _, n := range s.Names(kmfx.Bucket) {
		if strings.HasSuffix(n, "keyManifest.textproto") {
			b, _ := s.Get(kmfx.Bucket, n)
			m = len(b)
		}
	}
	return m
}

func record(name string, w *kmfx.World, op func() error) (history, error) {
	pre := w.Store.Clone()
	w.Store.Log = nil
	err := op()
	h := history{name: name, pre: pre, log: append([]kmfx.WriteRec(nil), w.Store.Log...)}
	return h, err
}

func main() {
	r := mc.NewRun("C11")
	r.Rule("E4: write logs of bootstrap-on-empty, rotation 1, rotation 2, of the same operations with each single object write failing, and of a rotation refused because its certificate object exists, of bootstrap-on-empty and rotation under --overwrite / --keep_going / both, of a rotation retried with --overwrite after a crash that left an orphan certificate, of a one-process history across a wipeout, recorded from the real code; plus one long history (Cloud KMS world, rotations until the manifest is past 80 KiB) judged at every crash point in recorded order; every permutation of each run of certificate uploads x every prefix => crash store; each reloaded (raw read-back, fresh gcsca, and on local disk through localca's start-up check); states = distinct crash stores; non-trivial = crash stores that are neither the pre-state nor the final state")
	r.Assume("object granularity: a write is atomic and durable when the writer is closed (as the property states); torn single objects are out of scope")
	defer kmfx.Cleanup()
	t0 := fx.T0
	now := t0.Add(100 * time.Hour)
	var hs []history
	w := kmfx.NewWorld(kmfx.MemGcs)
	h, err := record("bootstrap", w, func() error { return w.Bootstrap(kmfx.DefaultBootstrap(t0), kmfx.Flags{}, nil) })
	if err != nil {
		mc.Fatal("bootstrap: %v", err)
	}
	hs = append(hs, h)
	for i := 1; i <= mc.Pick(r, 2, 3); i++ {
		i := i
		h, err := record(fmt.Sprintf("rotation-%d", i), w, func() error {
			_, e := w.Rotate(kmfx.RotateOpts{Now: t0.Add(time.Duration(i) * 24 * time.Hour)}, kmfx.Flags{}, nil)
			return e
		})
		if err != nil {
			mc.Fatal("rotation %d: %v", i, err)
		}
		hs = append(hs, h)
	}
	// Retried rotation after a crash that left an orphan certificate (needs --overwrite).
	{
		last := hs[len(hs)-1]
		if len(last.log) >= 2 {
			crashed := materialise(last.pre, last.log, 1)
			w2 := w.Clone()
			w2.Store = crashed
			// The key service kept the old key (it is destroyed last), so rotating again works.
			w2.Signer = w.Signer
			h, err := record("rotation-retried-with-overwrite", w2, func() error {
				_, e := w2.Rotate(kmfx.RotateOpts{Now: t0.Add(96 * time.Hour)}, kmfx.Flags{Overwrite: true}, nil)
				return e
			})
			if err == nil {
				hs = append(hs, h)
			} else {
				r.Set("retried_rotation_skipped", err.Error())
			}
		}
	}
	// One process, one set of key-manager and authority objects over a longer history: bootstrap,
	// rotation, wipeout of everything, and then bootstrap and rotation again on the emptied store.
	// What the long-lived objects remember from before the wipeout must not shape what they write
	// afterwards.
	{
		wo := kmfx.NewWorld(kmfx.MemGcs)
		wo.OneProcess = true
		steps := []struct {
			name string
			run  func() error
		}{
			{"one-process/bootstrap", func() error { return wo.Bootstrap(kmfx.DefaultBootstrap(t0), kmfx.Flags{}, nil) }},
			{"one-process/rotation", func() error {
				_, e := wo.Rotate(kmfx.RotateOpts{Now: t0.Add(24 * time.Hour)}, kmfx.Flags{}, nil)
				return e
			}},
			{"one-process/wipeout", func() error { return wo.Wipeout(true, true, kmfx.Flags{}) }},
			{"one-process/bootstrap-after-wipeout", func() error {
				return wo.Bootstrap(kmfx.DefaultBootstrap(t0.Add(48*time.Hour)), kmfx.Flags{}, nil)
			}},
			{"one-process/rotation-after-wipeout", func() error {
				_, e := wo.Rotate(kmfx.RotateOpts{Now: t0.Add(72 * time.Hour)}, kmfx.Flags{}, nil)
				return e
			}},
		}
		for _, st := range steps {
			h, err := record(st.name, wo, st.run)
			if err != nil {
				r.Set("one_process_history_stopped_at", st.name+": "+err.Error())
				break
			}
			if !strings.HasSuffix(st.name, "/wipeout") {
				hs = append(hs, h)
			}
		}
	}
	// Operations in which one object write fails (the process carries on and reports the error) or
	// is refused (certificate object already exists, no --overwrite): the writes that still reach
	// storage form a history too, and the manifest must not get ahead of the certificates in it.
	type opSpec struct {
		name string
		snap *kmfx.World
		run  func(w *kmfx.World) error
	}
	var ops []opSpec
	ops = append(ops, opSpec{"bootstrap", kmfx.NewWorld(kmfx.MemGcs), func(w *kmfx.World) error { return w.Bootstrap(kmfx.DefaultBootstrap(t0), kmfx.Flags{}, nil) }})
	{
		wb := kmfx.NewWorld(kmfx.MemGcs)
		if err := wb.Bootstrap(kmfx.DefaultBootstrap(t0), kmfx.Flags{}, nil); err != nil {
			mc.Fatal("bootstrap: %v", err)
		}
		ops = append(ops, opSpec{"rotation", wb, func(w *kmfx.World) error {
			_, e := w.Rotate(kmfx.RotateOpts{Now: t0.Add(24 * time.Hour)}, kmfx.Flags{}, nil)
			return e
		}})
		ops = append(ops, opSpec{"rotation-refused-existing-certificate-object", wb, func(w *kmfx.World) error {
			// serial 2 and the default common name collide with the bootstrap certificate object
			_, e := w.Rotate(kmfx.RotateOpts{Now: t0.Add(24 * time.Hour), Serial: 2}, kmfx.Flags{}, nil)
			return e
		}})
	}
	// The same operations under the global flags (each alone and both): the order of the writes may
	// depend on them, the invariant does not. Their fault-free logs are histories too. (A bootstrap
	// over a store that already holds a chain is not among the operations the statement names.)
	nPlain := len(ops)
	for _, fl := range []struct {
		name string
		f    kmfx.Flags
	}{{"--overwrite", kmfx.Flags{Overwrite: true}}, {"--keep_going", kmfx.Flags{KeepGoing: true}}, {"--overwrite --keep_going", kmfx.Flags{Overwrite: true, KeepGoing: true}}} {
		fl := fl
		ops = append(ops, opSpec{"bootstrap " + fl.name, kmfx.NewWorld(kmfx.MemGcs), func(w *kmfx.World) error { return w.Bootstrap(kmfx.DefaultBootstrap(t0), fl.f, nil) }})
		ops = append(ops, opSpec{"rotation " + fl.name, ops[1].snap, func(w *kmfx.World) error {
			_, e := w.Rotate(kmfx.RotateOpts{Now: t0.Add(24 * time.Hour)}, fl.f, nil)
			return e
		}})
	}
	for oi, op := range ops {
		// number of writes of the fault-free run
		probe := op.snap.Clone()
		probe.Store.Log = nil
		op.run(probe)
		nw := len(probe.Store.Log)
		faultAt := []int{-1}
		if !strings.Contains(op.name, "refused") {
			faultAt = nil
			if oi >= nPlain {
				faultAt = []int{-1} // the fault-free log of a flagged operation is not among the recorded histories above
			}
			for k := 0; k < nw; k++ {
				faultAt = append(faultAt, k)
			}
		}
		for _, k := range faultAt {
			wf := op.snap.Clone()
			pre := wf.Store.Clone()
			wf.Store.Log = nil
			seen := 0
			if k >= 0 {
				wf.Store.Pre = func(o, b, obj string) error {
					if o == "Write" {
						seen++
						if seen-1 == k {
							return fmt.Errorf("injected write failure")
						}
					}
					return nil
				}
			}
			err := op.run(wf)
			wf.Store.Pre = nil
			name := fmt.Sprintf("%s-with-write-%d-failing", op.name, k)
			if k < 0 {
				name = op.name
			}
			if err == nil && k >= 0 {
				// Not a clause of the statement (an operation may recover from a failed write); the
				// stores this log leaves behind are judged below like any other.
				r.Outcome("success-reported-although-a-write-failed:" + op.name)
			}
			hs = append(hs, history{name: name, pre: pre, log: append([]kmfx.WriteRec(nil), wf.Store.Log...)})
		}
	}
	// Conformance: repeated real runs of bootstrap must produce one of the enumerated traces.
	enumerated := map[string]bool{}
	for _, l := range permutedLogs(hs[0].log) {
		enumerated[names(l)] = true
	}
	seen := map[string]int{}
	reps := mc.Pick(r, 8, 24)
	for i := 0; i < reps; i++ {
		wi := kmfx.NewWorld(kmfx.MemGcs)
		if err := wi.Bootstrap(kmfx.DefaultBootstrap(t0), kmfx.Flags{}, nil); err != nil {
			mc.Fatal("bootstrap: %v", err)
		}
		n := names(wi.Store.Log)
		seen[n]++
		if !enumerated[n] {
			// The map-order model does not explain this run: the enumeration is then incomplete (not
			// a violation of the code). The observed log joins the histories so that its prefixes
			// are judged as well, and the run is reported as not exhaustive.
			r.Cap("a real bootstrap produced a write order outside the permutations of the recorded log: " + n)
			enumerated[n] = true
			hs = append(hs, history{name: fmt.Sprintf("bootstrap-observed-order-%d", i), pre: hs[0].pre, log: append([]kmfx.WriteRec(nil), wi.Store.Log...)})
		}
		r.Validated()
	}
	longHistory(r, t0, now)
	r.Set("conformance_runs", reps)
	r.Set("conformance_distinct_observed_orders", len(seen))
	for _, h := range hs {
		logs := permutedLogs(h.log)
		r.Add("permuted_logs_"+h.name, int64(len(logs)))
		r.Set("write_order_"+h.name, names(h.log))
		for pi, l := range logs {
			for k := 0; k <= len(l); k++ {
				id := fmt.Sprintf("history=%s order=%s prefix=%d", h.name, names(l), k)
				r.Case(id, func() string {
					s := materialise(h.pre, l, k)
					ps := problems(s, now, true)
					r.Eval()
					r.Transition(k)
					var canon []string
					for _, n := range s.Names(kmfx.Bucket) {
						canon = append(canon, n)
					}
					for _, p := range ps {
						r.Violation(h.name+"/"+p[0], id, fmt.Sprintf("crash after write %d of [%s]: %s", k, names(l), p[1]), map[string]any{"objects_present": canon})
					}
					wst := (&kmfx.World{Kind: kmfx.MemGcs, Store: s, Signer: &nonprod.Signer{}}).Inspect()
					if r.State(h.name + "|" + wst.Canon()) {
						r.Sample(map[string]any{"history": h.name, "permutation": pi, "prefix": k, "order": names(l), "objects": canon, "primary": wst.PrimaryName})
					}
					if (k > 0 && k < len(l)) || strings.Contains(h.name, "failing") || strings.Contains(h.name, "refused") {
						r.Nontrivial(id)
					}
					r.Outcome(h.name)
					return fmt.Sprint(ps)
				})
			}
		}
	}
	r.Finish()
}
