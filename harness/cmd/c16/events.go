//go:build !noexport

package main

import (
	"bytes"
	"crypto/rand"
	"crypto/sha512"
	"encoding/hex"
	"fmt"

	"github.com/google/gce-tcb-verifier/endorse"
	"github.com/google/gce-tcb-verifier/eventlog"
	epb "github.com/google/gce-tcb-verifier/proto/endorsement"
	evpb "github.com/google/gce-tcb-verifier/proto/events"
	"google.golang.org/protobuf/proto"

	"verifharness/mc"
)

// events checks that what the signer emits for a firmware parses back to exactly one
// UEFI-variable locator (FirmwareRIM under the Google GUID) and one URI locator that is the bucket
// URL derived from the SHA-384 of the image, both under one manifest GUID.
func events(r *mc.Run) {
	images := [][]byte{nil, {0}, bytes.Repeat([]byte{0xab}, 4096), []byte("firmware image bytes")}
	for i, img := range images {
		d := sha512.Sum384(img)
		id := fmt.Sprintf("events image=%d digest=%s", i, hex.EncodeToString(d[:4]))
		r.Case(id, func() string {
			payload, _ := proto.Marshal(&epb.VMGoldenMeasurement{Digest: d[:]})
			var out []byte
			var err error
			pan, val := mc.Guard(func() {
				out, err = endorse.VerifMakeEvents(rand.Reader, &epb.VMLaunchEndorsement{SerializedUefiGolden: payload})
			})
			r.Eval()
			viol := func(what, msg string) { r.Violation("events/"+what, id, msg, nil) }
			if pan || err != nil {
				if pan {
					viol("panic", fmt.Sprintf("makeEvents panicked: %v", val))
				}
				r.Outcome("events:not-emitted") // a refusal emits nothing; counted only
				return "err"
			}
			r.Validated()
			evs := &evpb.Sp800155Events{}
			if proto.Unmarshal(out, evs) != nil || len(evs.Events) != 2 {
				viol("count", fmt.Sprintf("expected exactly two events, got %d", len(evs.Events)))
				return "count"
			}
			var vars, uris int
			var guids [][16]byte
			for _, raw := range evs.Events {
				if !bytes.HasPrefix(raw, eventlog.TcgSP800155Event3Signature[:]) {
					viol("signature", "event lacks the SP800-155 Event3 signature")
					continue
				}
				ev := &eventlog.SP800155Event3{}
				if e := ev.UnmarshalFromBytes(raw[eventlog.EventSignatureSize:]); e != nil {
					viol("unparseable", "emitted event does not parse back: "+e.Error())
					continue
				}
				guids = append(guids, ev.ReferenceManifestGUID.UUID)
				switch ev.RIMLocatorType {
				case eventlog.RIMLocationVariable:
					vars++
					want := append(append([]byte{0x46, 0x8e, 0x85, 0xa2, 0x7f, 0xa3, 0x6a, 0x45, 0x8c, 0x79, 0x0c, 0x1f, 0xe4, 0x8b, 0x65, 0xff}, []byte("F\x00i\x00r\x00m\x00w\x00a\x00r\x00e\x00R\x00I\x00M\x00")...), 0, 0)
					if !bytes.Equal(ev.RIMLocator.Data, want) {
						viol("variable-locator", "the variable locator is not FirmwareRIM under the Google GUID")
					}
				case eventlog.RIMLocationURI:
					uris++
					want := "https://storage.googleapis.com/gce_tcb_integrity/ovmf_x64_csm/" + hex.EncodeToString(d[:]) + ".fd.signed"
					if string(ev.RIMLocator.Data) != want {
						viol("uri-locator", fmt.Sprintf("URI locator %q is not the bucket URL derived from the image digest (%q)", ev.RIMLocator.Data, want))
					}
				default:
					viol("unexpected-locator", fmt.Sprintf("unexpected locator type %d", ev.RIMLocatorType))
				}
				if re, _ := ev.MarshalToBytes(); !bytes.Equal(re, raw) {
					viol("not-canonical", "the emitted event does not re-encode to itself")
				}
			}
			if vars != 1 || uris != 1 {
				viol("locator-count", fmt.Sprintf("%d variable and %d URI locators, want one of each", vars, uris))
			}
			if len(guids) == 2 && guids[0] != guids[1] {
				viol("manifest-guid-differs", "the two events carry different manifest GUIDs")
			}
			r.Nontrivial(id)
			return "ok"
		})
	}
}
