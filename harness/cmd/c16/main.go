// C16 — endorsement discovery is deterministic, local-first and confined.
//
// Engines E1/E5: the full product of evidence sources (event log with each locator type / absent /
// unreadable / wrong manufacturer, supplied quote in each format, local quote provider, network
// getter) with and without forced fetch is run through the real extract.Endorsement with
// recording doubles; object names and URLs are checked for injectivity and technology separation
// on an enumerated domain; UEFI-variable names with path metacharacters are resolved under a
// scratch efivarfs root with symlinks and sentinels outside; emitted SP800-155 events are parsed
// back (overlay export of endorse.makeEvents).
package main

import (
	"bytes"
	"crypto/sha512"
	"encoding/hex"
	"errors"
	"fmt"
	"io/fs"
	"os"
	"path"
	"path/filepath"
	"strings"

	"github.com/google/gce-tcb-verifier/eventlog"
	"github.com/google/gce-tcb-verifier/extract"
	exel "github.com/google/gce-tcb-verifier/extract/eventlog"
	"github.com/google/gce-tcb-verifier/extract/extractsev"
	"github.com/google/gce-tcb-verifier/extract/extracttdx"
	"github.com/google/gce-tcb-verifier/sev"
	"github.com/google/gce-tcb-verifier/verify"
	"github.com/google/go-sev-guest/abi"
	spb "github.com/google/go-sev-guest/proto/sevsnp"
	sgtest "github.com/google/go-sev-guest/testing"
	tabi "github.com/google/go-tdx-guest/abi"
	tpb "github.com/google/go-tdx-guest/proto/tdx"
	tpmpb "github.com/google/go-tpm-tools/proto/attest"
	"github.com/google/uuid"
	"google.golang.org/protobuf/proto"

	"verifharness/att"
	"verifharness/kmfx"
	"verifharness/mc"
)

type recGetter struct {
	urls []string
	body []byte
	err  error
}

func (g *recGetter) Get(u string) ([]byte, error) {
	g.urls = append(g.urls, u)
	if g.err != nil {
		return nil, g.err
	}
	return g.body, nil
}

type recVars struct {
	calls int
	body  []byte
	err   error
}

func (v *recVars) ReadVariable(uuid.UUID, []uint8) ([]byte, error) {
	v.calls++
	if v.err != nil {
		return nil, v.err
	}
	return v.body, nil
}

type provider struct {
	quote []byte
	err   error
	calls int
}

func (p *provider) IsSupported() bool { return true }
func (p *provider) GetRawQuote([64]byte) ([]uint8, error) {
	p.calls++
	return p.quote, p.err
}

var (
	mQuote    = att.Meas(0x31) // measurement of the supplied quote
	mProvider = att.Meas(0x32) // measurement of the provider's quote
	localBlob = []byte("ENDORSEMENT-FROM-CERT-TABLE")
	provBlob  = []byte("ENDORSEMENT-FROM-PROVIDER-CERT-TABLE")
	rawBlob   = []byte("ENDORSEMENT-RAW-IN-EVENT-LOG")
	varBlob   = []byte("ENDORSEMENT-IN-UEFI-VARIABLE")
	netBlob   = []byte("ENDORSEMENT-FROM-NETWORK")
	uriLoc    = "https://example.invalid/some/rim"
)

func sp800(man string, locType uint32, loc []byte) *eventlog.SP800155Event3 {
	return &eventlog.SP800155Event3{PlatformManufacturerID: 11129, ReferenceManifestGUID: eventlog.EfiGUID{UUID: uuid.MustParse("a2858e46-a37f-456a-8c79-0c1fe48b65ff")},
		PlatformManufacturerStr: eventlog.ByteSizedCStr{Data: man}, PlatformModel: eventlog.ByteSizedCStr{Data: "m"}, PlatformVersion: eventlog.ByteSizedCStr{Data: ""},
		FirmwareManufacturerStr: eventlog.ByteSizedCStr{Data: man}, FirmwareManufacturerID: 11129, FirmwareVersion: eventlog.ByteSizedCStr{Data: "2.7"},
		RIMLocatorType: locType, RIMLocator: eventlog.Uint32SizedArray{Data: loc}}
}

func mkLog(evs ...*eventlog.SP800155Event3) []byte {
	l := &eventlog.CryptoAgileLog{Header: eventlog.TCGPCClientPCREvent{EventType: eventlog.EvNoAction, EventData: eventlog.TCGEventData{Event: &eventlog.UnknownEvent{Data: []byte("Spec ID Event03\x00")}}}}
	for _, ev := range evs {
		l.Events = append(l.Events, &eventlog.TCGPCREvent2{EventType: eventlog.EvNoAction,
			Digests:   eventlog.Uint32SizedArrayT[*eventlog.TaggedDigest]{Array: []*eventlog.TaggedDigest{{AlgID: 0xc, Digest: make([]byte, 48)}}},
			EventData: eventlog.TCGEventData{Event: ev}})
	}
	var buf bytes.Buffer
	if err := l.Marshal(&buf); err != nil {
		mc.Fatal("%v", err)
	}
	return buf.Bytes()
}

type logSpec struct {
	name string
	path string // "" = no event log configured
	// expected local result (nil = the log yields nothing locally)
	local []byte
	// URI the log legitimately points to (fetched through the getter), "" if none
	uri string
	// the log's deciding locator (precedence raw > variable > local > URI) is the URI one, so the
	// order between that fetch and the quote's own evidence is not judged
	uriDecides bool
	// answer of the UEFI variable reader (nil = the variable's contents)
	varErr error
}

// very long logs run with a reduced set of the other sources (the log is what is varied there)
var reducedLogs = map[string]bool{}

type quoteSpec struct {
	name  string
	bytes []byte
	local []byte // endorsement carried in the quote's certificate table
	meas  []byte // full-length measurement of the quote (nil if none/short)
	tech  string
	bad   bool
}

func snpAtt(meas, extra []byte) *spb.Attestation { return att.Snp(meas, extra) }

func quotes(measure []byte, blob []byte, tag string) []quoteSpec {
	tpmWith, _ := proto.Marshal(&tpmpb.Attestation{TeeAttestation: &tpmpb.Attestation_SevSnpAttestation{SevSnpAttestation: snpAtt(measure, blob)}})
	tpmWithout, _ := proto.Marshal(&tpmpb.Attestation{TeeAttestation: &tpmpb.Attestation_SevSnpAttestation{SevSnpAttestation: snpAtt(measure, nil)}})
	raw := sgtest.TestRawReport([64]byte{1})
	copy(raw[0x90:0x90+48], measure) // MEASUREMENT field of the raw report
	table := abi.CertsFromProto(&spb.CertificateChain{VcekCert: att.Vcek(), Extras: map[string][]byte{sev.GCEFwCertGUID: blob}}).Marshal()
	rawCerts := append(append([]byte(nil), raw[:abi.ReportSize]...), table...)
	tq := att.TdxQuote(measure)
	qp, err := tabi.QuoteToProto(tq)
	if err != nil {
		mc.Fatal("%v", err)
	}
	tpmTdx, _ := proto.Marshal(&tpmpb.Attestation{TeeAttestation: &tpmpb.Attestation_TdxAttestation{TdxAttestation: qp.(*tpb.QuoteV4)}})
	return []quoteSpec{
		{tag + "tpm-snp+extras", tpmWith, blob, measure, "sev", false},
		{tag + "tpm-snp", tpmWithout, nil, measure, "sev", false},
		{tag + "raw-report+certs", rawCerts, blob, measure, "sev", false},
		{tag + "raw-report", raw[:abi.ReportSize], nil, measure, "sev", false},
		{tag + "cert-table-only", table, blob, nil, "sev", false},
		{tag + "tpm-tdx", tpmTdx, nil, measure, "tdx", false},
		{tag + "raw-tdx", tq, nil, measure, "tdx", false},
	}
}

func main() {
	r := mc.NewRun("C16")
	defer kmfx.Cleanup()
	r.Rule("E1/E5 full product: event log {not configured, unreadable, raw locator, variable locator, URI locator, local-path locator, wrong manufacturer, raw+URI, URI+variable, wrong-raw+URI, variable that cannot be read (absent, denied) alone and with a URI locator in both orders, local-path+URI, 72 logs of several 4 KiB blocks whose deciding locator follows 60 foreign events at every byte alignment, logs beyond 64 KiB (520 foreign events, 192 alignments; quick every fourth) with a reduced set of the other sources} x supplied quote {empty, 7 formats with/without the endorsement in the certificate table, cert table only, garbage} x provider {none, quote with/without extras, error} x getter {nil, ok, error} x forced fetch; object names over all measurements of <=2 bytes and 48-byte one-bit neighbours x {3 SEV family ids, TDX}; efivarfs names of <=3 (thorough 4) UCS-2 units over {a . / \\ - NUL} x 3 GUIDs under a scratch root with symlinks; emitted events for a menu of digests; non-trivial = distinct (sources, forced) combinations that returned an endorsement")
	scratch := kmfx.ScratchRoot()
	write := func(name string, b []byte) string {
		p := filepath.Join(scratch, name)
		os.WriteFile(p, b, 0o644)
		return p
	}
	rimVar := append(append([]byte{0x46, 0x8e, 0x85, 0xa2, 0x7f, 0xa3, 0x6a, 0x45, 0x8c, 0x79, 0x0c, 0x1f, 0xe4, 0x8b, 0x65, 0xff}, []byte("F\x00i\x00r\x00m\x00w\x00a\x00r\x00e\x00R\x00I\x00M\x00")...), 0, 0)
	g := extract.GCEFirmwareManufacturer
	logs := []logSpec{
		{"not-configured", "", nil, "", false, nil},
		{"unreadable", filepath.Join(scratch, "does-not-exist"), nil, "", false, nil},
		{"raw", write("el-raw", mkLog(sp800(g, eventlog.RIMLocationRaw, rawBlob))), rawBlob, "", false, nil},
		{"variable", write("el-var", mkLog(sp800(g, eventlog.RIMLocationVariable, rimVar))), varBlob, "", false, nil},
		{"uri", write("el-uri", mkLog(sp800(g, eventlog.RIMLocationURI, []byte(uriLoc)))), nil, uriLoc, true, nil},
		{"local-path", write("el-local", mkLog(sp800(g, eventlog.RIMLocationLocal, []byte("PciRoot(0)/x")))), nil, "", false, nil},
		{"wrong-manufacturer", write("el-wrong", mkLog(sp800("Evil Corp", eventlog.RIMLocationRaw, []byte("EVIL")))), nil, "", false, nil},
		{"raw+uri", write("el-raw-uri", mkLog(sp800(g, eventlog.RIMLocationRaw, rawBlob), sp800(g, eventlog.RIMLocationURI, []byte(uriLoc)))), rawBlob, "", false, nil},
		{"uri+variable", write("el-uri-var", mkLog(sp800(g, eventlog.RIMLocationURI, []byte(uriLoc)), sp800(g, eventlog.RIMLocationVariable, rimVar))), varBlob, "", false, nil},
		{"wrong-raw+uri", write("el-wrong-raw-uri", mkLog(sp800("Evil Corp", eventlog.RIMLocationRaw, []byte("EVIL")), sp800(g, eventlog.RIMLocationURI, []byte(uriLoc)))), nil, uriLoc, true, nil},
		// the variable locator decides but the variable cannot be read: the log yields nothing, and
		// what follows is the quote's own evidence, not the lower-precedence URI locator
		{"variable(absent)", write("el-var-a", mkLog(sp800(g, eventlog.RIMLocationVariable, rimVar))), nil, "", false, &fs.PathError{Op: "open", Path: "FirmwareRIM", Err: fs.ErrNotExist}},
		{"variable(absent)+uri", write("el-var-a-uri", mkLog(sp800(g, eventlog.RIMLocationVariable, rimVar), sp800(g, eventlog.RIMLocationURI, []byte(uriLoc)))), nil, uriLoc, false, &fs.PathError{Op: "open", Path: "FirmwareRIM", Err: fs.ErrNotExist}},
		{"uri+variable(absent)", write("el-uri-var-a", mkLog(sp800(g, eventlog.RIMLocationURI, []byte(uriLoc)), sp800(g, eventlog.RIMLocationVariable, rimVar))), nil, uriLoc, false, &fs.PathError{Op: "open", Path: "FirmwareRIM", Err: fs.ErrNotExist}},
		{"variable(denied)+uri", write("el-var-d-uri", mkLog(sp800(g, eventlog.RIMLocationVariable, rimVar), sp800(g, eventlog.RIMLocationURI, []byte(uriLoc)))), nil, uriLoc, false, &fs.PathError{Op: "open", Path: "FirmwareRIM", Err: fs.ErrPermission}},
		{"local-path+uri", write("el-local-uri", mkLog(sp800(g, eventlog.RIMLocationLocal, []byte("PciRoot(0)/x")), sp800(g, eventlog.RIMLocationURI, []byte(uriLoc)))), nil, uriLoc, false, nil},
	}
	// Long logs (several 4 KiB blocks, as real boot logs are): the deciding raw or variable locator
	// comes after 60 events of another manufacturer, and the first of those is padded byte by byte
	// so that, over the 64 logs, every field of the later events falls across a 4096-byte offset in
	// some log. They are read through the file path like every other log here.
	for shift := 0; shift < 64; shift++ {
		filler := []*eventlog.SP800155Event3{sp800("Filler Corp", eventlog.RIMLocationRaw, bytes.Repeat([]byte{0xF1}, shift))}
		for i := 0; i < 60; i++ {
			filler = append(filler, sp800("Filler Corp", eventlog.RIMLocationRaw, []byte("filler-event-payload-of-some-length")))
		}
		logs = append(logs,
			logSpec{fmt.Sprintf("long(shift=%d)+raw", shift), write(fmt.Sprintf("el-long-raw-%d", shift), mkLog(append(append([]*eventlog.SP800155Event3(nil), filler...), sp800(g, eventlog.RIMLocationRaw, rawBlob))...)), rawBlob, "", false, nil})
		if shift%8 == 0 {
			logs = append(logs,
				logSpec{fmt.Sprintf("long(shift=%d)+variable", shift), write(fmt.Sprintf("el-long-var-%d", shift), mkLog(append(append([]*eventlog.SP800155Event3(nil), filler...), sp800(g, eventlog.RIMLocationVariable, rimVar))...)), varBlob, "", false, nil})
		}
	}
	// Very long logs (more than 64 KiB: 520 foreign events before the deciding one), again padded so
	// that over the family every field of some later event falls across the 65536-byte offset.
	{
		step := mc.Pick(r, 4, 1)
		for shift := 0; shift < 192; shift += step {
			filler := []*eventlog.SP800155Event3{sp800("Filler Corp", eventlog.RIMLocationRaw, bytes.Repeat([]byte{0xF1}, shift))}
			for i := 0; i < 520; i++ {
				filler = append(filler, sp800("Filler Corp", eventlog.RIMLocationRaw, []byte("filler-event-payload-of-some-length")))
			}
			b := mkLog(append(append([]*eventlog.SP800155Event3(nil), filler...), sp800(g, eventlog.RIMLocationRaw, rawBlob))...)
			if len(b) <= 70<<10 {
				mc.Fatal("very long log is only %d bytes", len(b))
			}
			name := fmt.Sprintf("very-long(shift=%d)+raw", shift)
			reducedLogs[name] = true
			logs = append(logs, logSpec{name: name, path: write(fmt.Sprintf("el-vlong-raw-%d", shift), b), local: rawBlob})
		}
	}
	qs := append([]quoteSpec{{"empty", nil, nil, nil, "", true}, {"garbage", []byte("\x01\x02garbage that is no attestation\xff\xfe"), nil, nil, "", true}}, quotes(mQuote, localBlob, "")...)
	pq := quotes(mProvider, provBlob, "p:")
	type provSpec struct {
		name string
		q    *quoteSpec
		err  error
	}
	provs := []provSpec{{"none", nil, nil}, {"with-extras", &pq[2], nil}, {"without-extras", &pq[3], nil}, {"error", nil, errors.New("no device")}}
	type getSpec struct {
		name string
		nilg bool
		err  error
	}
	gets := []getSpec{{"nil", true, nil}, {"ok", false, nil}, {"error", false, errors.New("network down")}}

	// The URL the repository itself derives from a full-length measurement (the naming scheme is
	// judged separately, in objectNames; here only "derived from the evidence's measurement").
	urlFor := func(q *quoteSpec) string {
		if q == nil || q.meas == nil {
			return ""
		}
		if q.tech == "tdx" {
			return verify.GCETcbURL(extracttdx.GCETcbObjectName(q.meas))
		}
		return verify.GCETcbURL(extractsev.GCETcbObjectName(sev.GCEUefiFamilyID, q.meas))
	}
	for _, lg := range logs {
		for qi := range qs {
			for _, pv := range provs {
				for _, gt := range gets {
					for _, force := range []bool{false, true} {
						lg, q, pv, gt, force := lg, &qs[qi], pv, gt, force
						if reducedLogs[lg.name] && (qi > 3 || pv.name == "error" || pv.name == "without-extras" || gt.name == "error") {
							continue
						}
						id := fmt.Sprintf("extract log=%s quote=%s provider=%s getter=%s force=%v", lg.name, q.name, pv.name, gt.name, force)
						r.Case(id, func() string {
							gtr := &recGetter{body: netBlob, err: gt.err}
							vars := &recVars{body: varBlob, err: lg.varErr}
							opts := &extract.Options{FirmwareManufacturer: g, EventLogLocation: lg.path, UEFIVariableReader: vars, Quote: q.bytes, ForceFetch: force}
							if !gt.nilg {
								opts.Getter = gtr
							}
							var prov *provider
							if pv.name != "none" {
								prov = &provider{err: pv.err}
								if pv.q != nil {
									prov.quote = pv.q.bytes
								}
								opts.Provider = prov
							}
							var out []byte
							var err error
							pan, val := mc.Guard(func() { out, err = extract.Endorsement(opts) })
							r.Eval()
							viol := func(what, msg string) {
								r.Violation("extract/"+what, id, msg, map[string]any{"urls": gtr.urls, "error": fmt.Sprint(err), "returned": string(out)})
							}
							if pan {
								viol("panic", fmt.Sprintf("extract.Endorsement panicked: %v", val))
								return "panic"
							}
							r.Validated()
							// Allowed URLs: derived from a full-length measurement of the supplied evidence, or the log's URI locator verbatim.
							allowed := map[string]bool{}
							if u := urlFor(q); u != "" {
								allowed[u] = true
							}
							if pv.q != nil {
								if u := urlFor(pv.q); u != "" {
									allowed[u] = true
								}
							}
							if lg.uri != "" {
								allowed[lg.uri] = true
							}
							for _, u := range gtr.urls {
								if !allowed[u] {
									kind := "url-not-derived-from-evidence"
									if strings.HasSuffix(u, "/gce_tcb_integrity/") {
										kind = "bucket-root-requested"
									} else if strings.Contains(u, "/sevsnp/00.binarypb") {
										kind = "url-from-placeholder-measurement"
									}
									viol(kind, fmt.Sprintf("network fetch of %q, which is not derived from a full-length measurement of the supplied evidence", u))
								}
							}
							// Local-first: without forced fetch, local evidence is returned byte for byte with no network
							// access. Only unambiguous cases are judged: the log's raw/variable locator; else (log
							// yields nothing and points nowhere) the supplied quote's certificate-table entry; else
							// (no usable supplied quote) the provider quote's entry.
							if !force {
								var local []byte
								switch {
								case lg.local != nil:
									local = lg.local
								case !lg.uriDecides && q.local != nil:
									local = q.local
								case !lg.uriDecides && q.bad && pv.q != nil && pv.q.local != nil:
									local = pv.q.local
								}
								if local != nil {
									if err != nil || !bytes.Equal(out, local) {
										viol("local-evidence-not-returned", fmt.Sprintf("local evidence %q is available but the result is %q (err %v)", local, out, err))
									}
									if len(gtr.urls) != 0 {
										viol("network-used-despite-local-evidence", fmt.Sprintf("network fetched %v although local evidence was available and no fetch was forced", gtr.urls))
									}
								}
							}
							if err == nil {
								// whatever is returned must be one of the evidence blobs or the network answer for an allowed URL
								known := [][]byte{rawBlob, varBlob, localBlob, provBlob, netBlob}
								ok := false
								for _, k := range known {
									if bytes.Equal(out, k) {
										ok = true
									}
								}
								if !ok {
									viol("unknown-bytes-returned", fmt.Sprintf("returned %q which is none of the evidence sources", out))
								}
								r.Nontrivial(id)
							}
							r.Outcome(map[bool]string{true: "found", false: "error"}[err == nil])
							sig := fmt.Sprintf("log=%s q=%s force=%v -> err=%v urls=%d", lg.name, q.name, force, err != nil, len(gtr.urls))
							if r.State(sig) && len(gtr.urls) > 0 {
								r.Sample(map[string]any{"case": id, "urls": gtr.urls, "returned": string(out), "error": fmt.Sprint(err)})
							}
							return fmt.Sprintf("%q %v %v", out, err, gtr.urls)
						})
					}
				}
			}
		}
	}
	objectNames(r)
	efivars(r)
	events(r)
	r.Finish()
}

func objectNames(r *mc.Run) {
	var ms [][]byte
	ms = append(ms, []byte{})
	for a := 0; a < 256; a++ {
		ms = append(ms, []byte{byte(a)})
	}
	for a := 0; a < 256; a++ {
		for b := 0; b < 256; b++ {
			ms = append(ms, []byte{byte(a), byte(b)})
		}
	}
	base := att.Meas(0x42)
	ms = append(ms, base)
	for bit := 0; bit < 384; bit++ {
		ms = append(ms, att.Flip(base, bit))
	}
	seen := map[string]string{}
	fams := []string{sev.GCEUefiFamilyID, sev.GCEFwCertGUID, "11111111-2222-3333-4444-555555555555"}
	for _, m := range ms {
		names := map[string]string{"tdx": extracttdx.GCETcbObjectName(m)}
		for _, f := range fams[:1] {
			names["sev:"+f] = extractsev.GCETcbObjectName(f, m)
		}
		r.EvalN(2)
		for tech, n := range names {
			key := tech[:3] + "|" + hex.EncodeToString(m)
			if prev, dup := seen[n]; dup && prev != key {
				r.Violation("names/not-injective", "object names", fmt.Sprintf("object name %q is produced for both %s and %s", n, prev, key), nil)
			}
			seen[n] = key
			if !strings.Contains(n, hex.EncodeToString(m)) || !strings.HasSuffix(verify.GCETcbURL(n), n) {
				r.Outcome("names:format-differs") // the naming scheme itself is not a clause; counted only
			}
		}
		// Technology separation: the two technologies' names live in directories neither of which
		// contains the other (whatever the family id), so no listing or prefix rule for one
		// technology can ever cover objects of the other.
		tdxDir := path.Dir(extracttdx.GCETcbObjectName(m)) + "/"
		for _, f := range fams {
			n := extractsev.GCETcbObjectName(f, m)
			sevDir := path.Dir(n) + "/"
			if strings.HasPrefix(tdxDir, sevDir) || strings.HasPrefix(sevDir, tdxDir) {
				r.Violation("names/technology-not-separated", "object names", fmt.Sprintf("SEV-SNP object %q and TDX objects under %q are not in separate directories", n, tdxDir), nil)
			}
		}
	}
	r.Validated()
	r.Nontrivial("object-names")
	r.Set("object_name_measurements", len(ms))
}

func efivars(r *mc.Run) {
	root := filepath.Join(kmfx.ScratchRoot(), "efi")
	outside := filepath.Join(kmfx.ScratchRoot(), "outside")
	os.MkdirAll(root, 0o755)
	os.MkdirAll(outside, 0o755)
	guids := []string{"a2858e46-a37f-456a-8c79-0c1fe48b65ff", "00000000-0000-0000-0000-000000000000", "ffffffff-ffff-ffff-ffff-ffffffffffff"}
	for _, gd := range guids {
		os.WriteFile(filepath.Join(root, "a-"+gd), append([]byte{7, 0, 0, 0}, "INSIDE"...), 0o644)
		// sentinels outside the root, reachable through .. and through symlinks
		os.WriteFile(filepath.Join(outside, "a-"+gd), append([]byte{7, 0, 0, 0}, "SENTINEL"...), 0o644)
		os.WriteFile(filepath.Join(kmfx.ScratchRoot(), "a-"+gd), append([]byte{7, 0, 0, 0}, "SENTINEL"...), 0o644)
		os.Symlink(filepath.Join(outside, "a-"+gd), filepath.Join(root, "-"+gd)) // name "" -> "-<guid>" symlink to outside
		os.Symlink(filepath.Join(outside, "a-"+gd), filepath.Join(root, "aa-"+gd))
	}
	os.Symlink(outside, filepath.Join(root, "a.a"))
	os.Symlink(kmfx.ScratchRoot(), filepath.Join(root, "aaa"))
	units := []uint16{'a', '.', '/', '\\', '-', 0}
	maxLen := mc.Pick(r, 3, 4)
	rd := exel.MakeEfiVarFSReader(root)
	var rec func(cur []uint16)
	rec = func(cur []uint16) {
		if len(cur) > 0 {
			for _, gd := range guids {
				name := make([]byte, 0, 2*len(cur)+2)
				for _, u := range cur {
					name = append(name, byte(u), byte(u>>8))
				}
				name = append(name, 0, 0)
				id := fmt.Sprintf("efivar name=%v guid=%s", cur, gd)
				r.Case(id, func() string {
					var out []byte
					var err error
					pan, val := mc.Guard(func() { out, err = rd.ReadVariable(uuid.MustParse(gd), name) })
					r.Eval()
					if pan {
						r.Violation("efivar/panic", id, fmt.Sprintf("ReadVariable panicked: %v", val), nil)
						return "panic"
					}
					if bytes.Contains(out, []byte("SENTINEL")) {
						r.Violation("efivar/read-outside-root", id, fmt.Sprintf("variable name %v resolved to a file outside the efivarfs root", cur), nil)
					}
					if err == nil {
						r.Nontrivial(id)
					}
					return fmt.Sprintf("%q %v", out, err)
				})
			}
		}
		if len(cur) == maxLen {
			return
		}
		for _, u := range units {
			rec(append(append([]uint16(nil), cur...), u))
		}
	}
	rec(nil)
	r.Validated()
}

var _ = sha512.Sum384
