//go:build noexport

package main

import "verifharness/mc"

func events(r *mc.Run) {
	r.Degraded("emitted-events sub-check (overlay export of endorse.makeEvents did not build)")
}
