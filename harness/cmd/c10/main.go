// C10 — signing-key rotation is failure-atomic.
//
// Engine E4 (on E1): every call rotation makes to the key manager, the signer, the certificate
// authority and its storage is a choice point {ok, fault, crash-after}. All single deviations
// (quick) / all pairs (thorough) are explored on the real rotate.Key for each key-manager /
// authority combination; after each run volatile state is dropped, the authority is reloaded and
// the post-fault state is checked, a monitor checks the state at the moment the old key is
// destroyed, and a fault-free rotation with overwrite must then succeed.
package main

import (
	"context"
	"crypto"
	"crypto/x509"
	"errors"
	"fmt"
	"runtime"
	"strings"
	"time"

	"github.com/google/gce-tcb-verifier/endorse"
	"github.com/google/gce-tcb-verifier/keys"
	epb "github.com/google/gce-tcb-verifier/proto/endorsement"
	styp "github.com/google/gce-tcb-verifier/sign/types"
	"github.com/google/gce-tcb-verifier/verify"

	"verifharness/att"
	"verifharness/fx"
	"verifharness/kmfx"
	"verifharness/mc"
)

var errInjected = errors.New("injected fault")

type crash struct{ at string }

type injector struct {
	c     *mc.Chooser
	log   []string
	w     *kmfx.World
	fault []string
	off   bool // after the rotation: seam calls pass through without choice points
	// monitor results
	destroyChecked bool
	destroyBad     string
}

// step is called around every seam call: returns an error to answer with (fault), else runs op and
// may crash after it.
func (i *injector) step(label string, op func() error) error {
	if i.off {
		return op()
	}
	ch := i.c.Choose(3, label)
	i.log = append(i.log, fmt.Sprintf("%s=%d", label, ch))
	if ch == 1 {
		i.fault = append(i.fault, "fault@"+label)
		return errInjected
	}
	err := op()
	if ch == 2 {
		i.fault = append(i.fault, "crash-after@"+label)
		panic(crash{label})
	}
	return err
}

type fManager struct {
	in keys.ManagerInterface
	i  *injector
}

func (m *fManager) CreateFirstSigningKey(ctx context.Context) (s string, err error) {
	err = m.i.step("km.CreateFirstSigningKey", func() (e error) { s, e = m.in.CreateFirstSigningKey(ctx); return })
	return
}
func (m *fManager) CreateNewSigningKeyVersion(ctx context.Context) (s string, err error) {
	err = m.i.step("km.CreateNewSigningKeyVersion", func() (e error) { s, e = m.in.CreateNewSigningKeyVersion(ctx); return })
	return
}
func (m *fManager) CreateNewRootKey(ctx context.Context) (s string, err error) {
	err = m.i.step("km.CreateNewRootKey", func() (e error) { s, e = m.in.CreateNewRootKey(ctx); return })
	return
}
func (m *fManager) CertificateTemplate(ctx context.Context, issuer *x509.Certificate, pk any) (c *x509.Certificate, err error) {
	err = m.i.step("km.CertificateTemplate", func() (e error) { c, e = m.in.CertificateTemplate(ctx, issuer, pk); return })
	return
}
func (m *fManager) DestroyKeyVersion(ctx context.Context, kvn string) error {
	return m.i.step("km.DestroyKeyVersion", func() error {
		m.i.checkAtDestroy(kvn)
		return m.in.DestroyKeyVersion(ctx, kvn)
	})
}
func (m *fManager) Wipeout(ctx context.Context) error {
	return m.i.step("km.Wipeout", func() error { return m.in.Wipeout(ctx) })
}

type fSigner struct {
	in styp.Signer
	i  *injector
}

func (s *fSigner) PublicKey(ctx context.Context, kvn string) (b []byte, err error) {
	err = s.i.step("signer.PublicKey", func() (e error) { b, e = s.in.PublicKey(ctx, kvn); return })
	return
}
func (s *fSigner) Sign(ctx context.Context, kvn string, d styp.Digest, o crypto.SignerOpts) (b []byte, err error) {
	err = s.i.step("signer.Sign", func() (e error) { b, e = s.in.Sign(ctx, kvn, d, o); return })
	return
}

type fCA struct {
	in styp.CertificateAuthority
	i  *injector
}

func (c *fCA) Certificate(ctx context.Context, kvn string) (b []byte, err error) {
	err = c.i.step("ca.Certificate", func() (e error) { b, e = c.in.Certificate(ctx, kvn); return })
	return
}
func (c *fCA) CABundle(ctx context.Context, kvn string) (b []byte, err error) {
	err = c.i.step("ca.CABundle", func() (e error) { b, e = c.in.CABundle(ctx, kvn); return })
	return
}
func (c *fCA) PrimaryRootKeyVersion(ctx context.Context) (s string, err error) {
	err = c.i.step("ca.PrimaryRootKeyVersion", func() (e error) { s, e = c.in.PrimaryRootKeyVersion(ctx); return })
	return
}
func (c *fCA) PrimarySigningKeyVersion(ctx context.Context) (s string, err error) {
	err = c.i.step("ca.PrimarySigningKeyVersion", func() (e error) { s, e = c.in.PrimarySigningKeyVersion(ctx); return })
	return
}
func (c *fCA) NewMutation() styp.CertificateAuthorityMutation { return c.in.NewMutation() }
func (c *fCA) Finalize(ctx context.Context, m styp.CertificateAuthorityMutation) error {
	return c.i.step("ca.Finalize", func() error { return c.in.Finalize(ctx, m) })
}
func (c *fCA) PrepareResources(ctx context.Context) error {
	return c.i.step("ca.PrepareResources", func() error { return c.in.PrepareResources(ctx) })
}
func (c *fCA) Wipeout(ctx context.Context) error {
	return c.i.step("ca.Wipeout", func() error { return c.in.Wipeout(ctx) })
}

var doc = func() *epb.VMGoldenMeasurement {
	return att.Golden(map[uint32][]byte{1: att.Meas(1)}, nil, true, nil, false, fx.T0.Add(48*time.Hour))
}

// checkAtDestroy is the monitor: when the old key is about to be destroyed, the durable state
// must already name another, certified, live key as primary.
func (i *injector) checkAtDestroy(old string) {
	i.destroyChecked = true
	st := i.w.Inspect()
	if st.LoadErr != "" {
		i.destroyBad = "durable state unreadable when destroying " + old + ": " + st.LoadErr
		return
	}
	if st.PrimaryName == old || st.PrimaryName == "" {
		i.destroyBad = fmt.Sprintf("old key %q destroyed while the durable state still records %q as primary", old, st.PrimaryName)
		return
	}
	if msg := primaryProblem(st, fx.T0.Add(72*time.Hour)); msg != "" {
		i.destroyBad = fmt.Sprintf("old key %q destroyed while the recorded new primary is unusable: %s", old, msg)
	}
}

// primaryProblem checks the static part of the invariant on a read-back state.
func primaryProblem(st *kmfx.State, now time.Time) string {
	if st.LoadErr != "" {
		return st.LoadErr
	}
	p := st.PrimaryName
	if p == "" {
		return "no primary signing key recorded"
	}
	pub, live := st.Live[p]
	if !live {
		return fmt.Sprintf("recorded primary %q is not a live key", p)
	}
	c := st.Certs[p]
	if c == nil {
		return fmt.Sprintf("recorded primary %q has no usable certificate (%s)", p, st.CertErr[p])
	}
	if !pub.Equal(c.PublicKey) {
		return fmt.Sprintf("certificate of %q does not certify the live key of that name", p)
	}
	if st.Root == nil {
		return "root certificate missing: " + st.RootErr
	}
	pool := x509.NewCertPool()
	pool.AddCert(st.Root)
	if _, err := c.Verify(x509.VerifyOptions{Roots: pool, CurrentTime: now, KeyUsages: []x509.ExtKeyUsage{x509.ExtKeyUsageAny}}); err != nil {
		return fmt.Sprintf("certificate of %q does not chain to the stored root: %v", p, err)
	}
	return ""
}

// invariant = static check + endorsing with the recorded primary key works and verifies.
func invariant(w *kmfx.World, now time.Time) string {
	st := w.Inspect()
	if msg := primaryProblem(st, now); msg != "" {
		return msg
	}
	e, err := w.SignGolden(doc(), now)
	if err != nil {
		return "endorsing with the recorded primary key fails: " + err.Error()
	}
	pool := x509.NewCertPool()
	pool.AddCert(st.Root)
	if err := verify.EndorsementProto(e, &verify.Options{RootsOfTrust: pool, Now: now}); err != nil {
		return "endorsement made after the failed rotation does not verify: " + err.Error()
	}
	return ""
}

func manifestBytes(w *kmfx.World) int {
	if w.Store == nil {
		return 0
	}
	for _, n := range w.Store.Names(kmfx.Bucket) {
		if strings.HasSuffix(n, "keyManifest.textproto") {
			b, _ := w.Store.Get(kmfx.Bucket, n)
			return len(b)
		}
	}
	return 0
}

type prestate struct {
	name string
	w    *kmfx.World
}

func main() {
	r := mc.NewRun("C10")
	bound := mc.Pick(r, 1, 2)
	r.Rule(fmt.Sprintf("E4 over E1: each seam call of one rotation (key manager, signer, certificate authority, storage) is a choice point {ok, fault, crash-after}; all executions with at most %d deviation(s) per rotation, from the states 'after bootstrap' and 'after bootstrap+rotation', for memkm+memca, memkm+gcsca(in-memory storage with hooks), localkm+localca(on disk) and gcpkms+gcsca (Cloud KMS manager over a model service), the latter also from a store after ~390 rotations whose manifest passes 64 KiB with this rotation; one set of objects per execution (same-process endorse and retry), reload, retry with --overwrite and with --overwrite --keep_going; non-trivial = distinct (combination, pre-state, deviation set) in which the rotation actually failed or crashed", bound))
	r.Assume("key material of memkm lives in 'the key service' and survives a crash of the tool; gcsca/localca are reloaded from storage (their cache is not trusted)")
	defer kmfx.Cleanup()
	kmfx.PoolKMSKeys = true // the model service's key material comes from a pool (worlds are never compared with one another here)
	kmfx.WarmKeyPool(kmfx.PoolSize)
	t0 := fx.T0
	tRot := t0.Add(24 * time.Hour)
	tNow := t0.Add(72 * time.Hour)
	var pres []struct {
		kind string
		ps   []prestate
	}
	for _, kind := range append(append([]string(nil), kmfx.Kinds...), kmfx.GcpGcs) { // + the Cloud KMS key manager over the model service
		w := kmfx.NewWorld(kind)
		if err := w.Bootstrap(kmfx.DefaultBootstrap(t0), kmfx.Flags{}, nil); err != nil {
			mc.Fatal("bootstrap %s: %v", kind, err)
		}
		if msg := invariant(w, tNow); msg != "" {
			mc.Fatal("invariant does not hold after a fault-free bootstrap of %s: %s", kind, msg)
		}
		w2 := w.Clone()
		if _, err := w2.Rotate(kmfx.RotateOpts{Now: tRot}, kmfx.Flags{}, nil); err != nil {
			r.Violation(kind+"/fault-free-rotation-fails", "setup "+kind, "a fault-free rotation after bootstrap fails: "+err.Error(), nil)
			continue
		}
		if msg := invariant(w2, tNow); msg != "" {
			r.Violation(kind+"/fault-free-rotation-breaks-invariant", "setup "+kind, "after a fault-free rotation: "+msg, nil)
			continue
		}
		states := []prestate{{"after-bootstrap", w}, {"after-bootstrap+rotate", w2}}
		if kind == kmfx.GcpGcs {
			// Scale: a store with a long history - hundreds of rotations, so that the manifest is about to
			// pass 64 KiB with the rotation under test (the Cloud KMS names make it grow by ~170 bytes per
			// key version). One long-lived set of objects builds it, as a rotation service would.
			wl := w.Clone()
			wl.OneProcess = true
			size, delta, n := manifestBytes(wl), 0, 0
			for size+delta <= 1<<16 && n < 1500 {
				n++
				if _, err := wl.Rotate(kmfx.RotateOpts{Now: t0.Add(time.Duration(n) * time.Minute)}, kmfx.Flags{}, nil); err != nil {
					r.Violation(kind+"/fault-free-rotation-fails", "setup "+kind, fmt.Sprintf("fault-free rotation %d of a long history fails: %v", n, err), nil)
					break
				}
				s2 := manifestBytes(wl)
				size, delta = s2, s2-size
			}
			r.Set("long_history_rotations", n)
			r.Set("long_history_manifest_bytes", size)
			wl.Restart()
			if msg := invariant(wl, tNow); msg != "" {
				r.Violation(kind+"/fault-free-rotation-breaks-invariant", "setup "+kind, fmt.Sprintf("after %d fault-free rotations: %s", n, msg), nil)
			} else {
				states = append(states, prestate{"after-a-long-history(manifest-about-to-pass-64KiB)", wl})
			}
		}
		pres = append(pres, struct {
			kind string
			ps   []prestate
		}{kind, states})
	}
	for _, kp := range pres {
		for _, ps := range kp.ps {
			kind, ps := kp.kind, ps
			body := func(c *mc.Chooser) string {
				w := ps.w.Clone()
				defer w.Drop()
				// One process: the key-manager and authority objects that saw the rotation fail are the
				// ones that endorse and retry afterwards - unless the process crashed, in which case a
				// new process (new objects) takes over.
				w.OneProcess = true
				in := &injector{c: c, w: w}
				if w.Store != nil {
					w.Store.Pre = func(op, b, o string) error {
						var e error
						// storage faults are modelled at the same {ok,fault,crash-after} granularity
						ch := in.c.Choose(3, "storage."+op+":"+o)
						in.log = append(in.log, fmt.Sprintf("storage.%s:%s=%d", op, o, ch))
						switch ch {
						case 1:
							in.fault = append(in.fault, "fault@storage."+op+":"+o)
							e = errInjected
						case 2:
							in.fault = append(in.fault, "crash-after@storage."+op+":"+o)
							w.Store.Post = func(op2, b2, o2 string) {
								w.Store.Post = nil
								panic(crash{"storage." + op2 + ":" + o2})
							}
							if op == "Reader" || op == "Exists" {
								// read-only call: crash immediately after it returns is modelled by crashing now
								w.Store.Post = nil
								panic(crash{"storage." + op + ":" + o})
							}
						}
						return e
					}
				}
				var rotErr error
				var crashed *crash
				var sess *kmfx.Session
				func() {
					defer func() {
						if x := recover(); x != nil {
							if cr, ok := x.(crash); ok {
								crashed = &cr
								return
							}
							panic(x)
						}
					}()
					_, rotErr = w.Rotate(kmfx.RotateOpts{Now: tRot.Add(24 * time.Hour)}, kmfx.Flags{}, func(s *kmfx.Session) {
						sess = s
						s.Keys.Manager = &fManager{s.Keys.Manager, in}
						s.Keys.Signer = &fSigner{s.Keys.Signer, in}
						s.Keys.CA = &fCA{s.Keys.CA, in}
					})
				}()
				if w.Store != nil {
					w.Store.Pre, w.Store.Post = nil, nil
				}
				r.Eval()
				r.Transition(len(c.Points))
				id := fmt.Sprintf("kind=%s pre=%s choices=%s", kind, ps.name, mc.ChoicesString(c.Choices()))
				devs := strings.Join(in.fault, "+")
				if devs == "" {
					devs = "none"
				}
				// class of the deviation for violation keys: labels without object names' serial parts
				key := func(what string) string { return fmt.Sprintf("%s/%s/%s/%s", kind, ps.name, what, devs) }
				detail := map[string]any{"calls": in.log, "rotation_error": fmt.Sprint(rotErr), "crashed": crashed != nil}
				if in.destroyBad != "" {
					r.Violation(key("destroy-before-durable"), id, in.destroyBad, detail)
				}
				outcome := "ok"
				if crashed != nil {
					outcome = "crash"
				} else if rotErr != nil {
					outcome = "error"
				}
				// The process that saw the rotation fail (no crash) goes on: with the very same key
				// manager, signer and authority objects, endorsing must keep working.
				if crashed == nil && rotErr != nil && sess != nil {
					in.off = true
					if w.Store != nil {
						w.Store.Pre, w.Store.Post = nil, nil
					}
					var e *epb.VMLaunchEndorsement
					var serr error
					pan, val := mc.Guard(func() {
						e, serr = endorse.SignDoc(endorse.NewContext(sess.Ctx, &endorse.Context{Timestamp: tNow}), doc())
					})
					switch {
					case pan:
						r.Violation(key("same-process-endorse-fails"), id, fmt.Sprintf("after the failed rotation [%s] endorsing with the same objects panics: %v", devs, val), detail)
					case serr != nil:
						r.Violation(key("same-process-endorse-fails"), id, fmt.Sprintf("after the failed rotation [%s] (error: %v) the same process can no longer endorse: %v", devs, rotErr, serr), detail)
					default:
						st := w.Inspect()
						if st.Root != nil {
							pool := x509.NewCertPool()
							pool.AddCert(st.Root)
							if verr := verify.EndorsementProto(e, &verify.Options{RootsOfTrust: pool, Now: tNow}); verr != nil {
								r.Violation(key("same-process-endorsement-unverifiable"), id, fmt.Sprintf("after the failed rotation [%s] the same process signs an endorsement that does not verify: %v", devs, verr), detail)
							}
						}
					}
				}
				// The surviving process (rotation returned an error, no crash) retries in place with the
				// objects it has; this runs on a copy of the world made now, so that the reload checks
				// below still see the state right after the failure.
				sameProcessRetry := ""
				if crashed == nil && rotErr != nil {
					in.off = true
					if w.Store != nil {
						w.Store.Pre, w.Store.Post = nil, nil
					}
					snap := w.Clone()
					if _, err := w.Rotate(kmfx.RotateOpts{Now: tRot.Add(36 * time.Hour)}, kmfx.Flags{Overwrite: true}, nil); err != nil {
						sameProcessRetry = "fails"
						r.Violation(key("same-process-retry-rotation-fails"), id, fmt.Sprintf("the process that saw the rotation fail [%s] retries with --overwrite and fails: %v", devs, err), detail)
					} else {
						w.Restart()
						if m2 := invariant(w, tNow); m2 != "" {
							sameProcessRetry = "breaks"
							r.Violation(key("same-process-retry-rotation-breaks-invariant"), id, fmt.Sprintf("after the process that saw the rotation fail [%s] retried with --overwrite: %s", devs, m2), detail)
						} else {
							sameProcessRetry = "ok"
						}
					}
					w.Drop()
					w = snap
					defer snap.Drop()
				}
				w.Restart()
				// Post-fault state after reload (new process, new objects).
				msg := invariant(w, tNow)
				if msg != "" {
					r.Violation(key("primary-unusable-after-failure"), id, fmt.Sprintf("after rotation %s with [%s]: %s", outcome, devs, msg), detail)
				}
				// A later fault-free rotation that may overwrite leftovers must succeed - also when the
				// operator adds --keep_going to --overwrite (it is still allowed to overwrite). This variant
				// runs on a copy, so that the plain --overwrite retry below starts from the same state.
				if msg == "" {
					wk := w.Clone()
					if _, err := wk.Rotate(kmfx.RotateOpts{Now: tRot.Add(48 * time.Hour)}, kmfx.Flags{Overwrite: true, KeepGoing: true}, nil); err != nil {
						r.Violation(key("retry-rotation(--overwrite --keep_going)-fails"), id, fmt.Sprintf("fault-free rotation with --overwrite --keep_going after [%s] fails: %v", devs, err), detail)
					} else if m2 := invariant(wk, tNow); m2 != "" {
						r.Violation(key("retry-rotation(--overwrite --keep_going)-breaks-invariant"), id, fmt.Sprintf("after the retry rotation with --overwrite --keep_going following [%s]: %s", devs, m2), detail)
					}
					wk.Drop()
				}
				retry := "skipped"
				if msg == "" {
					if _, err := w.Rotate(kmfx.RotateOpts{Now: tRot.Add(48 * time.Hour)}, kmfx.Flags{Overwrite: true}, nil); err != nil {
						retry = "fails"
						r.Violation(key("retry-rotation-fails"), id, fmt.Sprintf("fault-free rotation with --overwrite after [%s] fails: %v", devs, err), detail)
					} else if m2 := invariant(w, tNow); m2 != "" {
						retry = "breaks"
						r.Violation(key("retry-rotation-breaks-invariant"), id, fmt.Sprintf("after the retry rotation following [%s]: %s", devs, m2), detail)
					} else {
						retry = "ok"
					}
				}
				r.Validated()
				sig := fmt.Sprintf("%s|%s|%s|%s|destroyMonitor=%v|inv=%v|retry=%s|same-process-retry=%s", kind, ps.name, devs, outcome, in.destroyChecked, msg == "", retry, sameProcessRetry)
				if r.State(sig) {
					r.Sample(map[string]any{"kind": kind, "pre": ps.name, "deviations": in.fault, "rotation": outcome, "seam_calls": len(in.log), "retry": retry})
				}
				if outcome != "ok" {
					r.Nontrivial(sig)
				}
				r.Outcome(kind + ":" + outcome)
				return sig
			}
			if r.Replaying() {
				pfx := fmt.Sprintf("kind=%s pre=%s choices=", kind, ps.name)
				if strings.HasPrefix(r.ReplayID, pfx) {
					// key material differs between runs; observations compare only the canonical signature
					r.Case(r.ReplayID, func() string { return body(mc.NewChooser(mc.ParseChoices(strings.TrimPrefix(r.ReplayID, pfx)))) })
				}
				continue
			}
			ex := &mc.Explorer{Bound: bound, Workers: runtime.GOMAXPROCS(0), Stop: r.Expired, Body: func(c *mc.Chooser) { body(c) }}
			ex.Run()
			r.Add("executions_"+kind+"_"+ps.name, ex.Execs)
			r.Set("seam_calls_"+kind+"_"+ps.name, ex.MaxDepth)
			if ex.CapHit {
				r.Cap("stopped at the internal deadline in " + kind + "/" + ps.name)
			}
		}
	}
	r.Set("deviation_bound_completed", bound)
	r.Finish()
}
