// C12 — chain-of-trust invariants hold over every key-management history.
//
// Engine E3: breadth-first search over sequences of the real CLI commands bootstrap / rotate /
// wipeout (cmd.MakeApp, one new app per command) with flag variants, on cloned worlds for every
// key-manager / authority combination shipped in the repository; invariants are evaluated in every
// reached state and on every transition.
package main

import (
	"bytes"
	"crypto/rsa"
	"crypto/sha256"
	"crypto/x509"
	"encoding/hex"
	"fmt"
	"math/big"
	"sort"
	"strings"
	"time"

	styp "github.com/google/gce-tcb-verifier/sign/types"

	"verifharness/fx"
	"verifharness/kmfx"
	"verifharness/mc"
)

type action struct {
	name      string
	verb      string // bootstrap | rotate | wipeout
	args      []string
	overwrite bool
	keepGoing bool
	ts        time.Time
	serial    *big.Int // rotate override
	cn        string
	rootCN    string
	rootSer   *big.Int // bootstrap: root serial (nil = the default 1)
	signSer   *big.Int // bootstrap: first signing serial (nil = the default 2)
	wipeCA    bool
	wipeKeys  bool
}

type kstate struct {
	w          *kmfx.World
	epoch      int               // naming epoch: bumped by successful bootstrap and by key wipeout
	names      map[string]string // key version name -> public key fingerprint, current epoch
	minted     map[string]int    // key version name -> epoch in which its current certificate was minted
	mintedAt   map[string]time.Time
	rootAt     time.Time
	bootstraps int
}

func (k *kstate) clone() *kstate {
	c := &kstate{w: k.w.Clone(), epoch: k.epoch, names: map[string]string{}, minted: map[string]int{}, mintedAt: map[string]time.Time{}, rootAt: k.rootAt, bootstraps: k.bootstraps}
	for a, b := range k.names {
		c.names[a] = b
	}
	for a, b := range k.minted {
		c.minted[a] = b
	}
	for a, b := range k.mintedAt {
		c.mintedAt[a] = b
	}
	return c
}

func fp(p *rsa.PublicKey) string {
	h := sha256.Sum256(p.N.Bytes())
	return hex.EncodeToString(h[:6])
}

func days(d time.Duration) float64 { return d.Hours() / 24 }

func actions(r *mc.Run) []action {
	t0 := fx.T0
	ts := func(t time.Time) string { return "--timestamp=" + t.Format(time.RFC3339) }
	mk := func(name, verb string, t time.Time, extra ...string) action {
		a := action{name: name, verb: verb, ts: t}
		a.args = append([]string{verb}, extra...)
		if verb != "wipeout" {
			a.args = append(a.args, ts(t))
		}
		for _, e := range extra {
			switch {
			case e == "--overwrite":
				a.overwrite = true
			case e == "--keep_going":
				a.keepGoing = true
			case strings.HasPrefix(e, "--rotated_key_serial_override="):
				a.serial, _ = new(big.Int).SetString(strings.TrimPrefix(e, "--rotated_key_serial_override="), 10)
			case strings.HasPrefix(e, "--signing_key_cn="):
				a.cn = strings.TrimPrefix(e, "--signing_key_cn=")
			case strings.HasPrefix(e, "--root_key_cn="):
				a.rootCN = strings.TrimPrefix(e, "--root_key_cn=")
			case strings.HasPrefix(e, "--root_key_serial="):
				a.rootSer, _ = new(big.Int).SetString(strings.TrimPrefix(e, "--root_key_serial="), 10)
			case strings.HasPrefix(e, "--initial_signing_key_serial="):
				a.signSer, _ = new(big.Int).SetString(strings.TrimPrefix(e, "--initial_signing_key_serial="), 10)
			case e == "ca":
				a.wipeCA = true
			case e == "keys":
				a.wipeKeys = true
			}
		}
		if verb == "wipeout" && !a.wipeCA && !a.wipeKeys {
			a.wipeCA, a.wipeKeys = true, true
		}
		return a
	}
	as := []action{
		mk("bootstrap", "bootstrap", t0),
		// timestamps chosen so that the 5-year and the 25-year span from them contain one leap day more
		// than the fixed-day lifetimes allow for (creation between 1 March before a leap year and 29
		// February of it): lifetimes counted in calendar years come out a day longer here
		mk("bootstrap --overwrite (leap window)", "bootstrap", time.Date(2043, 6, 15, 12, 0, 0, 0, time.UTC), "--overwrite"),
		mk("rotate", "rotate", t0.Add(24*time.Hour)),
		// late in the root's 25-year validity: the signing lifetime then extends past the root's end
		mk("rotate --overwrite +21y", "rotate", t0.Add(21*365*24*time.Hour), "--overwrite"),
		mk("rotate serial=7 (leap window)", "rotate", time.Date(2043, 9, 1, 12, 0, 0, 0, time.UTC), "--rotated_key_serial_override=7"),
		// a serial beyond 64 bits (2^64+5): the flag takes any integer, and the default rotation after
		// it continues from it
		mk("rotate serial=2^64+5", "rotate", t0.Add(48*time.Hour), "--rotated_key_serial_override=18446744073709551621"),
		mk("bootstrap --overwrite serials=2^64,2^100+7", "bootstrap", t0.Add(2*time.Hour), "--overwrite", "--root_key_serial=18446744073709551616", "--initial_signing_key_serial=1267650600228229401496703205383"),
		mk("wipeout", "wipeout", t0),
		mk("wipeout ca", "wipeout", t0, "ca"),
		mk("wipeout keys", "wipeout", t0, "keys"),
	}
	if r.Thorough() {
		as = append(as,
			mk("bootstrap --keep_going", "bootstrap", t0.Add(3*time.Hour), "--keep_going"),
			mk("rotate --keep_going", "rotate", t0.Add(96*time.Hour), "--keep_going"),
			mk("rotate cn=X +1y", "rotate", t0.Add(365*24*time.Hour), "--signing_key_cn=X"),
			mk("rotate +24y", "rotate", t0.Add(24*365*24*time.Hour)),
			mk("bootstrap cn=X", "bootstrap", t0.Add(4*time.Hour), "--signing_key_cn=X", "--root_key_cn=RX"),
		)
	}
	return as
}

func main() {
	r := mc.NewRun("C12")
	depth := mc.Pick(r, 4, 5)
	r.Rule(fmt.Sprintf("E3 BFS to depth %d over real CLI commands {bootstrap, bootstrap --overwrite, rotate, rotate --overwrite 21 years into the root's validity, rotate with serial override 7, wipeout, wipeout ca, wipeout keys} (thorough adds --keep_going, common-name, +1y and +24y variants) from the empty world, for memkm+memca, memkm+gcsca and localkm+localca; plus three-command lines over the alphabet extended by serials beyond 64 bits: on one long-lived set of objects (memkm+gcsca, localkm+localca), per command (memkm+memca) and through the library calls of the commands against the Cloud KMS manager over a model service (gcpkms+memca, gcpkms+gcsca); canonical state = sorted certificate profiles, manifest entries, primary names, live key names, object names plus the naming epoch; non-trivial = distinct reached states with a bootstrapped chain", depth))
	r.Assume("'names are not reused between wipeouts' is read with bootstrap --overwrite starting a new naming epoch, like a key wipeout (it regenerates the keys under the configured names by design)")
	r.Assume("'issued by that root' is required of certificates minted since the latest bootstrap; older manifest entries that survive a bootstrap --overwrite are not judged")
	defer kmfx.Cleanup()
	kmfx.PoolKMSKeys = true // worlds are never compared with one another here
	acts := actions(r)
	byName := map[string]action{}
	var names []string
	// the BFS leaves the large serials to the lines below (they multiply its states without adding
	// a branch of the commands that the small serials do not take)
	large := map[string]bool{"rotate serial=2^64+5": true, "bootstrap --overwrite serials=2^64,2^100+7": true}
	var bfsNames []string
	for _, a := range acts {
		byName[a.name] = a
		names = append(names, a.name)
		if !large[a.name] {
			bfsNames = append(bfsNames, a.name)
		}
	}
	for _, kind := range kmfx.Kinds {
		kind := kind
		init := &kstate{w: kmfx.NewWorld(kind), names: map[string]string{}, minted: map[string]int{}, mintedAt: map[string]time.Time{}}
		b := &mc.BFS{
			MaxDepth: depth,
			Stop:     r.Expired,
			Canon: func(s any) string {
				k := s.(*kstate)
				var ns []string
				for n := range k.names {
					ns = append(ns, n)
				}
				sort.Strings(ns)
				return kind + "\n" + k.w.Inspect().Canon() + fmt.Sprintf("epochnames=%v", ns)
			},
			Actions: func(n *mc.Node) []string { return bfsNames },
			Drop:    func(s any) { s.(*kstate).w.Drop() },
			Apply: func(n *mc.Node, an string) any {
				id := fmt.Sprintf("kind=%s history=%s", kind, strings.Join(append(append([]string(nil), n.Hist...), an), " ; "))
				if !r.Want(id) && !r.Replaying() {
					return nil
				}
				return step(r, kind, n, byName[an], id, false)
			},
		}
		if r.Replaying() {
			// Re-execute the history of the replayed case from the empty world.
			pfx := fmt.Sprintf("kind=%s history=", kind)
			if strings.HasPrefix(r.ReplayID, pfx) {
				r.Case(r.ReplayID, func() string {
					node := &mc.Node{State: &kstate{w: kmfx.NewWorld(kind), names: map[string]string{}, minted: map[string]int{}, mintedAt: map[string]time.Time{}}}
					var last any
					for _, an := range strings.Split(strings.TrimPrefix(r.ReplayID, pfx), " ; ") {
						id := fmt.Sprintf("kind=%s history=%s", kind, strings.Join(append(append([]string(nil), node.Hist...), an), " ; "))
						last = step(r, kind, node, byName[an], id, false)
						node = &mc.Node{State: last, Hist: append(node.Hist, an)}
					}
					return last.(*kstate).w.Inspect().Canon()
				})
			}
			continue
		}
		b.Run(init)
		r.Add("states_"+kind, int64(b.States))
		r.Add("transitions_"+kind, int64(b.Transitions))
		r.Set("depth_completed_"+kind, b.DepthDone)
		r.Set("closure_reached_"+kind, b.Closed)
		r.Transition(b.Transitions)
		if b.CapHit {
			r.Cap("BFS for " + kind + " stopped at the internal deadline")
		}
		if kind == kmfx.MemMem {
			// every three-command history that contains a large serial, one process per command (the
			// other two kinds run them in the one-process lines below)
			var big [][]string
			for _, x := range names {
				for _, y := range names {
					for _, z := range names {
						if (large[x] || large[y] || large[z]) && (r.Thorough() || byName[x].verb == "bootstrap") {
							big = append(big, []string{x, y, z})
						}
					}
				}
			}
			r.ParallelFor(len(big), func(i int) {
				node := &mc.Node{State: &kstate{w: kmfx.NewWorld(kind), names: map[string]string{}, minted: map[string]int{}, mintedAt: map[string]time.Time{}}}
				for _, an := range big[i] {
					id := fmt.Sprintf("kind=%s history=%s", kind, strings.Join(append(append([]string(nil), node.Hist...), an), " ; "))
					next := step(r, kind, node, byName[an], id, false)
					node.State.(*kstate).w.Drop()
					if next == nil {
						return
					}
					node = &mc.Node{State: next, Hist: append(node.Hist, an)}
				}
				node.State.(*kstate).w.Drop()
			})
			nl := int64(len(big))
			r.Add("large_serial_lines_"+kind, nl)
		}
	}
	// One-process lines: the BFS above rebuilds the key-manager and authority objects for every
	// command (one process per command, as the CLI runs). Here every sequence of three commands is
	// run from the empty world on ONE set of objects that stays alive, for the two authorities that
	// keep state of their own; the same invariants are judged after every command.
	var lines [][]string
	for _, a := range names {
		for _, b := range names {
			for _, c := range names {
				lines = append(lines, []string{a, b, c})
			}
		}
	}
	// quick: the lines that start with a bootstrap (the others spend their first command on an empty
	// world), plus - for the one-process worlds - every line without a large serial; thorough: all
	startsWithBootstrap := func(seq []string) bool { return byName[seq[0]].verb == "bootstrap" }
	var bootLines, procLines [][]string
	for _, l := range lines {
		if r.Thorough() || startsWithBootstrap(l) {
			bootLines = append(bootLines, l)
			procLines = append(procLines, l)
		} else if !large[l[0]] && !large[l[1]] && !large[l[2]] {
			procLines = append(procLines, l)
		}
	}
	runLine := func(kind string, seq []string) {
		label := kind + "(one-process)"
		w := kmfx.NewWorld(kind)
		w.OneProcess = true
		node := &mc.Node{State: &kstate{w: w, names: map[string]string{}, minted: map[string]int{}, mintedAt: map[string]time.Time{}}}
		for _, an := range seq {
			id := fmt.Sprintf("kind=%s history=%s", label, strings.Join(append(append([]string(nil), node.Hist...), an), " ; "))
			next := step(r, label, node, byName[an], id, true)
			if next == nil {
				break // pruned (a state reported under a known finding is not explored further)
			}
			node = &mc.Node{State: next, Hist: append(node.Hist, an)}
		}
		w.Drop()
	}
	// The Cloud KMS key manager (the production one) over the model service, with both authorities:
	// the same three-command lines through the library calls the commands make.
	for _, kind := range []string{kmfx.GcpMem, kmfx.GcpGcs} {
		kind := kind
		pfx := fmt.Sprintf("kind=%s history=", kind)
		line := func(seq []string) {
			node := &mc.Node{State: &kstate{w: kmfx.NewWorld(kind), names: map[string]string{}, minted: map[string]int{}, mintedAt: map[string]time.Time{}}}
			for _, an := range seq {
				id := pfx + strings.Join(append(append([]string(nil), node.Hist...), an), " ; ")
				next := step(r, kind, node, byName[an], id, true)
				if next == nil {
					return
				}
				node = &mc.Node{State: next, Hist: append(node.Hist, an)}
			}
			node.State.(*kstate).w.Drop()
		}
		if r.Replaying() {
			if strings.HasPrefix(r.ReplayID, pfx) {
				r.Case(r.ReplayID, func() string {
					line(strings.Split(strings.TrimPrefix(r.ReplayID, pfx), " ; "))
					return "line re-executed"
				})
			}
			continue
		}
		r.ParallelFor(len(bootLines), func(i int) { line(bootLines[i]) })
		r.Add("library_lines_"+kind, int64(len(bootLines)))
	}
	for _, kind := range []string{kmfx.MemGcs, kmfx.LocalLocal} {
		kind := kind
		pfx := fmt.Sprintf("kind=%s(one-process) history=", kind)
		if r.Replaying() {
			if strings.HasPrefix(r.ReplayID, pfx) {
				r.Case(r.ReplayID, func() string {
					runLine(kind, strings.Split(strings.TrimPrefix(r.ReplayID, pfx), " ; "))
					return "line re-executed"
				})
			}
			continue
		}
		r.ParallelFor(len(procLines), func(i int) { runLine(kind, procLines[i]) })
		r.Add("one_process_lines_"+kind, int64(len(procLines)))
	}
	r.Finish()
}

// runCmd runs one command: through the real CLI where the world has one, and through the same
// library calls the CLI commands make (rotate.Bootstrap, rotate.Key after NextSigningKeySerial,
// rotate.Wipeout) for the Cloud KMS key manager, whose CLI wiring needs a live service.
func runCmd(w *kmfx.World, a action) (err error) {
	if w.KMS == nil {
		return w.CLI(a.args...)
	}
	defer func() {
		if x := recover(); x != nil {
			err = fmt.Errorf("panic: %v", x)
		}
	}()
	f := kmfx.Flags{Overwrite: a.overwrite, KeepGoing: a.keepGoing}
	switch a.verb {
	case "bootstrap":
		o := kmfx.DefaultBootstrap(a.ts)
		if a.cn != "" {
			o.SignCN = a.cn
		}
		if a.rootCN != "" {
			o.RootCN = a.rootCN
		}
		o.RootSerialBig, o.SignSerialBig = a.rootSer, a.signSer
		return w.Bootstrap(o, f, nil)
	case "rotate":
		_, err := w.Rotate(kmfx.RotateOpts{Now: a.ts, CN: a.cn, SerialBig: a.serial}, f, nil)
		return err
	default:
		return w.Wipeout(a.wipeCA, a.wipeKeys, f)
	}
}

// step clones the state, runs one command through the real CLI and evaluates the invariants.
func step(r *mc.Run, kind string, n *mc.Node, a action, id string, inPlace bool) any {
	prev := n.State.(*kstate)
	k := prev
	if !inPlace {
		k = prev.clone()
	}
	before := prev.w.Inspect()
	err := runCmd(k.w, a)
	after := k.w.Inspect()
	r.Eval()
	viol := func(what, msg string) {
		r.Violation(kind+"/"+what, id, msg, map[string]any{"command": a.name, "command_error": fmt.Sprint(err), "state": after.Canon()})
	}
	if err != nil && strings.HasPrefix(err.Error(), "panic:") {
		viol("panic", "command panicked: "+err.Error())
	}
	ok := err == nil
	// Known-finding trigger: a successful --keep_going command that kept a stale manifest entry, so
	// the recorded primary's certificate belongs to a previous key of the same name. Everything else
	// wrong in such a state is a consequence; it is reported once under its own key and the state is
	// not explored further.
	// The same defect shows through the root where key-version names are never reused (Cloud KMS):
	// the stored root certificate object is kept although the root key is a new one. The finding is
	// keyed by the world's components, not by how many processes ran the history.
	if ok && a.keepGoing {
		stale := ""
		if c, pub := after.Certs[after.PrimaryName], after.Live[after.PrimaryName]; after.PrimaryName != "" && c != nil && pub != nil && !pub.Equal(c.PublicKey) {
			stale = fmt.Sprintf("%q succeeded but the recorded primary %q keeps the certificate of a previous key of that name (manifest entry already existed)", a.name, after.PrimaryName)
		} else if pub := after.Live[after.RootName]; after.Root != nil && pub != nil && !pub.Equal(after.Root.PublicKey) {
			stale = fmt.Sprintf("%q succeeded but the stored root certificate is still that of a previous root key (the live root key %q is another one)", a.name, after.RootName)
		}
		if stale != "" {
			r.Violation(strings.TrimSuffix(kind, "(one-process)")+"/keep_going-kept-stale-certificate", id, stale, map[string]any{"command": a.name, "command_error": fmt.Sprint(err), "state": after.Canon()})
			r.Validated()
			r.Outcome(a.verb + ":ok-stale")
			k.w.Drop()
			return nil
		}
	}
	// --- transition checks -------------------------------------------------------------
	// No existing certificate object changes without overwrite permission.
	clobber := "certificate-object-clobbered"
	if a.keepGoing {
		clobber += "/under-keep_going" // a separate class: --keep_going is not overwrite permission, but see known findings
	}
	if !a.overwrite {
		for name, h := range before.Objects {
			if name == "keyManifest.textproto" {
				continue
			}
			if h2, still := after.Objects[name]; still && h2 != h && a.verb != "wipeout" {
				viol(clobber, fmt.Sprintf("object %s changed by %q which has no overwrite permission", name, a.name))
			}
		}
		if kind == kmfx.MemMem && a.verb != "wipeout" {
			for kv, c := range before.Certs {
				if c2 := after.Certs[kv]; c2 != nil && !c2.Equal(c) {
					viol(clobber, fmt.Sprintf("certificate of %s replaced by %q which has no overwrite permission", kv, a.name))
				}
			}
			if before.Root != nil && after.Root != nil && !before.Root.Equal(after.Root) {
				viol(clobber, fmt.Sprintf("root certificate replaced by %q which has no overwrite permission", a.name))
			}
		}
	}
	switch a.verb {
	case "wipeout":
		if ok {
			if a.wipeCA && (len(after.Entries) > 0 || after.PrimaryName != "" || after.Root != nil || len(after.Objects) > 0) {
				viol("wipeout-leaves-certificates", "after wipeout the authority still holds certificates or a manifest")
			}
			if a.wipeKeys && len(after.Live) > 0 {
				viol("wipeout-leaves-keys", fmt.Sprintf("after wipeout %d key(s) are still usable", len(after.Live)))
			}
			if a.wipeKeys {
				k.epoch++
				k.names = map[string]string{}
			}
			if a.wipeCA {
				k.minted = map[string]int{}
				k.mintedAt = map[string]time.Time{}
			}
		}
	case "bootstrap":
		if ok {
			k.epoch++
			k.bootstraps++
			k.names = map[string]string{}
			k.rootAt = a.ts
			for kv := range after.Entries {
				if before.Certs[kv] == nil || !before.Certs[kv].Equal(after.Certs[kv]) {
					k.minted[kv] = k.epoch
					k.mintedAt[kv] = a.ts
				}
			}
		}
	case "rotate":
		if ok {
			np := after.PrimaryName
			if np == before.PrimaryName {
				r.Outcome("rotation-kept-primary") // not a clause of the statement; counted only
			}
			if pub, live := after.Live[np]; live {
				if old, seen := k.names[np]; seen && old != fp(pub) {
					viol("key-version-name-reused", fmt.Sprintf("rotation reused key version name %q for a different key within one naming epoch", np))
				}
			}
			k.minted[np] = k.epoch
			k.mintedAt[np] = a.ts
			// Serial arithmetic.
			if oc, nc := before.Certs[before.PrimaryName], after.Certs[np]; oc != nil && nc != nil {
				want := new(big.Int)
				if a.serial != nil {
					want.Set(a.serial)
				} else if prevSerial, okp := new(big.Int).SetString(oc.Subject.SerialNumber, 10); okp {
					want.Add(prevSerial, big.NewInt(1))
				}
				if nc.Subject.SerialNumber != want.String() {
					viol("subject-serial-not-successor", fmt.Sprintf("new signing certificate has subject serial %s, want %s", nc.Subject.SerialNumber, want))
				}
			}
			// Only the current primary can sign: the predecessor must be gone.
			if _, live := after.Live[before.PrimaryName]; live && before.PrimaryName != np {
				viol("old-key-still-live", fmt.Sprintf("previous primary %q is still usable after a successful rotation", before.PrimaryName))
			}
		}
	}
	// Names are tracked for keys that were recorded as primary (orphans of failed attempts are
	// overwritten by the designed retry path and never certified).
	if ok {
		if pub, live := after.Live[after.PrimaryName]; live {
			k.names[after.PrimaryName] = fp(pub)
		}
	}
	// --- state checks --------------------------------------------------------------------
	if after.LoadErr != "" {
		viol("state-unreadable", after.LoadErr)
	}
	if root := after.Root; root != nil {
		if !root.IsCA || !root.BasicConstraintsValid {
			viol("root-not-ca", "root certificate is not a CA certificate")
		}
		if root.CheckSignatureFrom(root) != nil {
			viol("root-not-self-signed", "root certificate is not self-signed")
		}
		if root.KeyUsage&x509.KeyUsageCertSign == 0 {
			viol("root-usage", "root certificate lacks certificate-signing usage")
		}
		if d := days(root.NotAfter.Sub(root.NotBefore)); d != float64(styp.RootValidDays) {
			viol("root-lifetime", fmt.Sprintf("root certificate is valid for %.2f days, documented lifetime is %d days (25 years)", d, styp.RootValidDays))
		}
		if root.SerialNumber.String() != root.Subject.SerialNumber {
			r.Outcome("root-serial-differs-from-subject-serial") // the serial clause is about signing certificates
		}
	}
	for kv, c := range after.Certs {
		if kv == after.RootName {
			continue
		}
		// A self-signed certificate listed under another name than the current root's is the
		// certificate of an earlier root (where key-version names are never reused, a re-bootstrap
		// leaves it listed): not a signing certificate. The primary's certificate is always judged.
		if kv != after.PrimaryName && bytes.Equal(c.RawSubject, c.RawIssuer) && c.CheckSignatureFrom(c) == nil {
			r.Outcome("earlier-root-certificate-still-listed")
			continue
		}
		if c.IsCA {
			viol("signing-cert-is-ca", fmt.Sprintf("signing certificate of %s is a CA certificate", kv))
		}
		if c.KeyUsage != x509.KeyUsageDigitalSignature {
			viol("signing-cert-usage", fmt.Sprintf("signing certificate of %s has key usage %d, want digital signature only", kv, c.KeyUsage))
		}
		if c.SignatureAlgorithm != x509.SHA256WithRSAPSS {
			viol("signing-cert-algorithm", fmt.Sprintf("signing certificate of %s is signed with %v", kv, c.SignatureAlgorithm))
		}
		if d := days(c.NotAfter.Sub(c.NotBefore)); d != float64(styp.SignValidDays) {
			viol("signing-cert-lifetime", fmt.Sprintf("signing certificate of %s is valid for %.2f days, documented %d", kv, d, styp.SignValidDays))
		}
		if at, okm := k.mintedAt[kv]; okm && !c.NotBefore.Equal(at) {
			viol("signing-cert-notbefore", fmt.Sprintf("signing certificate of %s starts at %s, created at %s", kv, c.NotBefore.UTC().Format(time.RFC3339), at.Format(time.RFC3339)))
		}
		if c.SerialNumber.String() != c.Subject.SerialNumber {
			viol("cert-serial-differs-from-subject-serial", fmt.Sprintf("signing certificate of %s has certificate serial %s but subject serial %s", kv, c.SerialNumber, c.Subject.SerialNumber))
		}
		if ep, okm := k.minted[kv]; okm && ep == k.epoch && after.Root != nil {
			if c.CheckSignatureFrom(after.Root) != nil {
				viol("signing-cert-not-issued-by-root", fmt.Sprintf("signing certificate of %s (minted since the latest bootstrap) is not issued by the current root", kv))
			}
		}
		// Only the primary signing key can sign: no other key that its certificate really certifies
		// may be usable (an uncertified orphan left by a failed command is not judged here).
		if pub, live := after.Live[kv]; live && kv != after.PrimaryName && pub.Equal(c.PublicKey) {
			viol("non-primary-certified-key-live", fmt.Sprintf("certified key %s is usable although the primary is %s", kv, after.PrimaryName))
		}
	}
	r.Validated()
	canon := kind + "|" + after.Canon()
	if r.State(canon) {
		r.Sample(map[string]any{"kind": kind, "history": append(append([]string(nil), n.Hist...), a.name), "command_ok": ok, "primary": after.PrimaryName, "entries": len(after.Entries), "live_keys": len(after.Live)})
	}
	if after.Root != nil && after.PrimaryName != "" {
		r.Nontrivial(canon)
	}
	r.Outcome(a.verb + map[bool]string{true: ":ok", false: ":err"}[ok])
	return k
}
