// C04 — the SEV-SNP golden measurement equals the AMD launch-digest definition.
//
// Engine E5: all metadata section lists up to a length bound over a menu of kinds, addresses and
// lengths (including misaligned, empty, overlapping, wrapping, unknown and duplicate ones), image
// sizes and contents, reset-block addresses, vCPU counts and both products are enumerated; the real
// sev.LaunchDigest is compared with an independent reference written from the ABI text
// (harness/ref/snp.go).
package main

import (
	"bytes"
	"fmt"
	"strings"

	"github.com/google/gce-tcb-verifier/sev"
	sgpb "github.com/google/go-sev-guest/proto/sevsnp"

	"verifharness/fx"
	"verifharness/mc"
	"verifharness/ref"
)

type opt struct{ kind, addr, length uint32 }

func fill(kind int) func([]byte) {
	return func(b []byte) {
		for i := range b {
			switch kind {
			case 1:
				b[i] = byte(i>>12)*17 + byte(i)
			case 2:
				b[i] = byte(i)
			}
		}
	}
}

func main() {
	r := mc.NewRun("C04")
	maxLen := mc.Pick(r, 3, 4)
	r.Rule(fmt.Sprintf("E5: every SNP metadata section list of length <=%d over kinds {1 unmeasured, 2 secrets, 3 CPUID, 4 zero/CAA, 5 unknown} x addresses {0x1000, 0x2000, 0x800 misaligned, 0xfffff000 (wraps 32 bits with length 0x2000)} x lengths {0, 0x1000, 0x2000} (thorough: reduced menu for length 4), plus sweeps of image size/contents, reset-block address, vCPU count and product on valid lists, the same through one reused buffer, and five large images (129 pages .. 4 MiB less a page); each compared with the reference digest chain; non-trivial = distinct accepted images whose digest equals the reference, plus distinct rejection classes", maxLen))
	r.Assume("boot-processor register state is the reset state launched by the GCE hypervisor (restated as an (offset,width,value) table from the APM layout in harness/ref/snp.go)")
	kinds := []uint32{1, 2, 3, 4, 5}
	addrs := []uint32{0x1000, 0x2000, 0x800, 0xfffff000}
	lens := []uint32{0, 0x1000, 0x2000}
	var menu []opt
	for _, k := range kinds {
		for _, a := range addrs {
			for _, l := range lens {
				menu = append(menu, opt{k, a, l})
			}
		}
	}
	var small []opt // for the deepest level in thorough
	for _, k := range []uint32{1, 2, 3, 4} {
		for _, a := range []uint32{0x1000, 0x2000, 0x3000, 0xfffff000} {
			for _, l := range []uint32{0x1000, 0x2000} {
				small = append(small, opt{k, a, l})
			}
		}
	}
	type task struct {
		id    string
		spec  fx.ImageSpec
		vcpus int
		prod  sgpb.SevProduct_SevProductName
		width uint
	}
	var tasks []func() task
	addList := func(m []opt, idx []int) {
		ix := append([]int(nil), idx...)
		tasks = append(tasks, func() task {
			var secs []fx.SevSection
			id := "sections="
			for _, i := range ix {
				o := m[i]
				secs = append(secs, fx.SevSection{Address: o.addr, Length: o.length, Kind: o.kind})
				id += fmt.Sprintf("[k%d@%#x+%#x]", o.kind, o.addr, o.length)
			}
			return task{id: id + " size=0x1000 vcpus=2 milan", spec: fx.ImageSpec{Size: 0x1000, Fill: fill(1), ResetAddr: 0xff0000ff, Sev: secs, NoTdx: true, SevMetaAt: 0x800}, vcpus: 2, prod: sgpb.SevProduct_SEV_PRODUCT_MILAN, width: 48}
		})
	}
	for n := 0; n <= 3; n++ {
		dims := make([]int, n)
		for i := range dims {
			dims[i] = len(menu)
		}
		if n == 0 {
			addList(menu, nil)
			continue
		}
		mc.Product(dims, func(ix []int) { addList(menu, ix) })
	}
	if maxLen >= 4 {
		mc.Product([]int{len(small), len(small), len(small), len(small)}, func(ix []int) { addList(small, ix) })
	}
	// Sweeps on valid section lists.
	valid := [][]fx.SevSection{fx.DefaultSev(), {{0x2000, 0x1000, 3}, {0x1000, 0x1000, 1}, {0x5000, 0x2000, 1}, {0x3000, 0x1000, 2}, {0x8000, 0x1000, 4}}}
	for vi, secs := range valid {
		for _, size := range []int{0x1000, 0x2000, 0x3000, 0x1800} {
			for fk := 0; fk < 3; fk++ {
				for _, ra := range []uint32{0, 0xffff, 0xffff0000, 0xff0000ff, 0xfffffff0} {
					for _, vc := range []int{-1, 0, 1, 2, 3, 16, 224, 240} {
						for _, pr := range []struct {
							p sgpb.SevProduct_SevProductName
							w uint
						}{{sgpb.SevProduct_SEV_PRODUCT_MILAN, 48}, {sgpb.SevProduct_SEV_PRODUCT_GENOA, 52}} {
							vi, secs, size, fk, ra, vc, pr := vi, secs, size, fk, ra, vc, pr
							tasks = append(tasks, func() task {
								return task{id: fmt.Sprintf("sweep list=%d size=%#x fill=%d reset=%#x vcpus=%d product=%v", vi, size, fk, ra, vc, pr.p),
									spec: fx.ImageSpec{Size: size, Fill: fill(fk), ResetAddr: ra, Sev: secs, NoTdx: true, SevMetaAt: 0x800}, vcpus: vc, prod: pr.p, width: pr.w}
							})
						}
					}
				}
			}
		}
	}
	// Large images (the small ones above exercise every layout; these exercise scale): hundreds of
	// pages, page counts that are and are not multiples of 8, 16 and 64.
	for _, size := range []int{0x81000, 0x100000, 0x101000, 0x203000, 0x3ff000} {
		for _, vc := range []int{1, 4} {
			for _, pr := range []struct {
				p sgpb.SevProduct_SevProductName
				w uint
			}{{sgpb.SevProduct_SEV_PRODUCT_MILAN, 48}, {sgpb.SevProduct_SEV_PRODUCT_GENOA, 52}} {
				size, vc, pr := size, vc, pr
				tasks = append(tasks, func() task {
					return task{id: fmt.Sprintf("large size=%#x (%d pages) vcpus=%d product=%v", size, size/0x1000, vc, pr.p),
						spec: fx.ImageSpec{Size: size, Fill: fx.PatternFill, ResetAddr: 0xff0000ff, Sev: fx.DefaultSev(), NoTdx: true, SevMetaAt: 0x800}, vcpus: vc, prod: pr.p, width: pr.w}
				})
			}
		}
	}
	r.ParallelFor(len(tasks), func(i int) {
		t := tasks[i]()
		r.Case(t.id, func() string {
			img, _ := fx.Build(t.spec)
			orig := append([]byte(nil), img...)
			var got, got2 []byte
			var err, err2 error
			pan, val := mc.Guard(func() {
				got, err = sev.LaunchDigest(&sev.LaunchOptions{Vcpus: t.vcpus, Product: t.prod}, img)
				got2, err2 = sev.LaunchDigest(&sev.LaunchOptions{Vcpus: t.vcpus, Product: t.prod}, img)
			})
			r.Eval()
			if pan {
				// Totality is C08's business; here a panic is neither a digest nor a rejection.
				r.Outcome("panic")
				return fmt.Sprintf("panic: %v", val)
			}
			want, refErr := ref.LaunchDigest(img, t.vcpus, t.width)
			r.Validated()
			viol := func(what, msg string) { r.Violation(what, t.id, msg, map[string]any{"case": t.id}) }
			if !bytes.Equal(img, orig) {
				viol("image-modified", "LaunchDigest modified the image bytes")
			}
			if (err == nil) != (err2 == nil) || !bytes.Equal(got, got2) {
				viol("not-deterministic", "two calls on the same image disagree")
			}
			switch {
			case err == nil && refErr != nil:
				viol("malformed-accepted/"+refErr.Error(), fmt.Sprintf("LaunchDigest returned a digest for an image the definition rejects (%v)", refErr))
			case err == nil && !bytes.Equal(got, want[:]):
				viol("digest-differs-from-definition", fmt.Sprintf("LaunchDigest = %x, definition gives %x", got, want))
			case err != nil && refErr == nil:
				r.Outcome("wellformed-image-refused") // the statement covers images the tool accepts; a refusal is counted only
			}
			cls := "reject:" + fmt.Sprint(refErr)
			if err == nil {
				cls = "accept"
				r.Nontrivial(t.id)
			} else {
				r.Nontrivial(cls)
			}
			r.Outcome(map[bool]string{true: "accept", false: "reject"}[err == nil])
			if r.State(cls + fmt.Sprint(len(t.spec.Sev), t.vcpus, t.prod)) {
				r.Sample(map[string]any{"case": t.id, "implementation_error": fmt.Sprint(err), "reference": fmt.Sprint(refErr), "digest": fmt.Sprintf("%x", got)})
			}
			return fmt.Sprintf("%x %v", got, err)
		})
	})
	// History: consecutive measurements in one goroutine through ONE reused byte buffer. The first
	// image of a pair is measured, the buffer is overwritten in place with the second image (same
	// backing array, possibly the same length), and the second measurement must still be the
	// definition's for the bytes and options of the second call. Whatever the first call remembered
	// (a memo keyed on the slice, on the length, on the contents without the options) shows up here.
	var seq []task
	for i, mk := range tasks {
		t := mk()
		if strings.HasPrefix(t.id, "sweep") || i%97 == 0 {
			seq = append(seq, t)
		}
	}
	shared := make([]byte, 0x400000)
	pairs := 0
	for i := 0; i+1 < len(seq); i++ {
		a, b := seq[i], seq[i+1]
		id := fmt.Sprintf("reused-buffer first=[%s] second=[%s]", a.id, b.id)
		r.Case(id, func() string {
			pairs++
			imgA, _ := fx.Build(a.spec)
			imgB, _ := fx.Build(b.spec)
			bufA := shared[:len(imgA)]
			copy(bufA, imgA)
			var got []byte
			var err error
			pan, _ := mc.Guard(func() {
				sev.LaunchDigest(&sev.LaunchOptions{Vcpus: a.vcpus, Product: a.prod}, bufA)
				bufB := shared[:len(imgB)]
				copy(bufB, imgB)
				got, err = sev.LaunchDigest(&sev.LaunchOptions{Vcpus: b.vcpus, Product: b.prod}, bufB)
			})
			r.Eval()
			if pan {
				r.Outcome("panic")
				return "panic"
			}
			want, refErr := ref.LaunchDigest(imgB, b.vcpus, b.width)
			r.Validated()
			switch {
			case err == nil && refErr != nil:
				r.Violation("after-another-image/malformed-accepted/"+refErr.Error(), id, fmt.Sprintf("measured right after another image in the same buffer, LaunchDigest returned a digest for an image the definition rejects (%v)", refErr), nil)
			case err == nil && !bytes.Equal(got, want[:]):
				r.Violation("after-another-image/digest-differs-from-definition", id, fmt.Sprintf("measured right after another image in the same buffer, LaunchDigest = %x, definition gives %x", got, want), nil)
			}
			if err == nil {
				r.Nontrivial(id)
			}
			r.Outcome("reused-buffer:" + map[bool]string{true: "accept", false: "reject"}[err == nil])
			return fmt.Sprintf("%x %v", got, err)
		})
	}
	r.Set("reused_buffer_pairs", pairs)
	r.Set("section_menu", len(menu))
	r.Finish()
}
