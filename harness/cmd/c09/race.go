package main

import (
	"fmt"
	"sync"
	"time"

	epb "github.com/google/gce-tcb-verifier/proto/endorsement"
	"google.golang.org/protobuf/proto"

	"verifharness/att"
	"verifharness/fx"
	"verifharness/mc"
)

// raceMain is the supplementary free-running pass: the same thread bodies run as real goroutines
// (no cooperative hand-offs, which would be happens-before edges) in a binary built with -race.
// The check script greps its output for race reports in repository frames.
func raceMain() {
	auth, err := fx.NewAuthority(fx.T0, "c09r")
	if err != nil {
		mc.Fatal("%v", err)
	}
	f := &fixture{auth: auth, now: fx.T0.Add(time.Hour)}
	g := att.Golden(map[uint32][]byte{2: mA}, nil, true, nil, false, fx.T0)
	f.end, _ = auth.SignGolden(g, fx.T0)
	f.endBin, _ = proto.Marshal(f.end)
	g2 := att.Golden(map[uint32][]byte{2: mC}, nil, true, nil, false, fx.T0)
	f.end2, _ = auth.SignGolden(proto.Clone(g2).(*epb.VMGoldenMeasurement), fx.T0)
	f.end2Bin, _ = proto.Marshal(f.end2)
	wrong := 0
	for _, sc := range scenarios() {
		for it := 0; it < 50; it++ {
			threads, _ := sc.build(f, func(string) {})
			var wg sync.WaitGroup
			var mu sync.Mutex
			for _, calls := range threads {
				calls := calls
				wg.Add(1)
				go func() {
					defer wg.Done()
					for _, c := range calls {
						if got := res(c.run()); got != c.want {
							mu.Lock()
							wrong++
							mu.Unlock()
						}
					}
				}()
			}
			wg.Wait()
		}
	}
	fmt.Printf("race pass done: scenarios=%d iterations=50 wrong_results_observed=%d\n", len(scenarios()), wrong)
}
