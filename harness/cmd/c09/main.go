// C09 — validation functions are re-entrant.
//
// Engine E2: 2-3 harness threads call validators that share an Options value, under a cooperative
// scheduler with a scheduling point before every statement of verify/verify.go and
// gcetcbendorsement/sevvalidate.go (woven in by harness/cmd/instr). All interleavings with at most
// N preemptions are explored; every call must return what it returns in isolation.
package main

import (
	"context"
	"encoding/hex"
	"fmt"
	"google.golang.org/protobuf/encoding/prototext"
	"os"
	"runtime"
	"strconv"
	"strings"
	"time"

	"github.com/google/gce-tcb-verifier/cmd/output"
	"github.com/google/gce-tcb-verifier/gcetcbendorsement"
	epb "github.com/google/gce-tcb-verifier/proto/endorsement"
	"github.com/google/gce-tcb-verifier/verify"
	"github.com/google/gce-tcb-verifier/vhook"
	"github.com/google/go-sev-guest/abi"
	cpb "github.com/google/go-sev-guest/proto/check"
	spb "github.com/google/go-sev-guest/proto/sevsnp"
	"google.golang.org/protobuf/proto"

	"verifharness/att"
	"verifharness/fx"
	"verifharness/mc"
)

var (
	mA = att.Meas(0xa1)              // endorsed
	mB = att.Flip(att.Meas(0xa1), 7) // one bit away, not endorsed
	mC = att.Meas(0xc3)              // endorsed by the second endorsement only
)

type fixture struct {
	auth      *fx.Authority
	now       time.Time
	end       *epb.VMLaunchEndorsement // endorses mA (count 2 and membership)
	endBin    []byte
	end2      *epb.VMLaunchEndorsement // endorses mC only
	forgedBin []byte
	endTdx    *epb.VMLaunchEndorsement // endorses mA for SNP (2 VMSAs) and as MRTD
	authNow   *fx.Authority
	endNowBin []byte
	endNowTdx *epb.VMLaunchEndorsement
	end2Bin   []byte
}

// call is one validator invocation made by a thread; it returns "nil" or "error".
type call struct {
	name string
	run  func() error
	want string // result in isolation
}

// scenario builds fresh shared state and the calls of each thread.
type scenario struct {
	name  string
	build func(f *fixture, pt func(string)) (threads [][]call, shared func() string)
}

type pointGetter struct {
	pt   func(string)
	body []byte
}

func (g *pointGetter) Get(string) ([]byte, error) {
	g.pt("getter.Get")
	return g.body, nil
}

func res(e error) string {
	if e == nil {
		return "nil"
	}
	return "error"
}

func scenarios() []scenario {
	attA := func(extra []byte) *spb.Attestation { return att.Snp(mA, extra) }
	attB := func(extra []byte) *spb.Attestation { return att.Snp(mB, extra) }
	// sharedMeas renders what the caller configured in an Options value: part of the explored state,
	// and - compared before and after an execution - the oracle that a validator leaves the caller's
	// configuration alone (a nil SNP section and an empty one are the same configuration).
	sharedMeas := func(o *verify.Options) func() string {
		return func() string {
			out := fmt.Sprintf("now=%v/%d endorsement=%v digest=%d", o.Now.IsZero(), o.Now.UnixNano(), o.Endorsement != nil, len(o.ExpectedUefiSha384))
			if o.SNP == nil {
				return out + " m= vmsas=0"
			}
			return out + " m=" + hex.EncodeToString(o.SNP.Measurement) + fmt.Sprintf(" vmsas=%d", o.SNP.ExpectedLaunchVMSAs)
		}
	}
	prodPolicy := abi.SnpPolicyToBytes(abi.SnpPolicy{SMT: true, MigrateMA: true})
	ctx := output.NewContext(context.Background(), &output.Options{Quiet: true})
	return []scenario{
		{"one-closure/A|B", func(f *fixture, pt func(string)) ([][]call, func() string) {
			o := &verify.Options{RootsOfTrust: f.auth.Roots(), Now: f.now}
			v := verify.SNPValidateFunc(o)
			return [][]call{
				{{"A", func() error { return v(attA(nil), f.endBin) }, "nil"}},
				{{"B", func() error { return v(attB(nil), f.endBin) }, "error"}},
			}, sharedMeas(o)
		}},
		{"one-closure/A|B|A", func(f *fixture, pt func(string)) ([][]call, func() string) {
			o := &verify.Options{RootsOfTrust: f.auth.Roots(), Now: f.now}
			v := verify.SNPValidateFunc(o)
			return [][]call{
				{{"A", func() error { return v(attA(nil), f.endBin) }, "nil"}},
				{{"B", func() error { return v(attB(nil), f.endBin) }, "error"}},
				{{"A2", func() error { return v(attA(nil), f.endBin) }, "nil"}},
			}, sharedMeas(o)
		}},
		{"one-closure/vmsa-count-2/A|B", func(f *fixture, pt func(string)) ([][]call, func() string) {
			o := &verify.Options{RootsOfTrust: f.auth.Roots(), Now: f.now, SNP: &verify.SNPOptions{ExpectedLaunchVMSAs: 2}}
			v := verify.SNPValidateFunc(o)
			return [][]call{
				{{"A", func() error { return v(attA(nil), f.endBin) }, "nil"}},
				{{"B", func() error { return v(attB(nil), f.endBin) }, "error"}},
			}, sharedMeas(o)
		}},
		{"two-closures-one-options/A|B", func(f *fixture, pt func(string)) ([][]call, func() string) {
			o := &verify.Options{RootsOfTrust: f.auth.Roots(), Now: f.now}
			v1, v2 := verify.SNPValidateFunc(o), verify.SNPValidateFunc(o)
			return [][]call{
				{{"A", func() error { return v1(attA(nil), f.endBin) }, "nil"}},
				{{"B", func() error { return v2(attB(nil), f.endBin) }, "error"}},
			}, sharedMeas(o)
		}},
		{"family+default-closures/A|B", func(f *fixture, pt func(string)) ([][]call, func() string) {
			o := &verify.Options{RootsOfTrust: f.auth.Roots(), Now: f.now}
			v1, v2 := verify.SNPValidateFunc(o), verify.SNPFamilyValidateFunc("11111111-2222-3333-4444-555555555555", o)
			return [][]call{
				{{"A", func() error { return v1(attA(nil), f.endBin) }, "nil"}},
				{{"B", func() error { return v2(attB(nil), f.endBin) }, "error"}},
			}, sharedMeas(o)
		}},
		{"preset-endorsement/A|B", func(f *fixture, pt func(string)) ([][]call, func() string) {
			o := &verify.Options{RootsOfTrust: f.auth.Roots(), Now: f.now, Endorsement: f.end}
			v := verify.SNPValidateFunc(o)
			return [][]call{
				{{"A", func() error { return v(attA(nil), nil) }, "nil"}},
				{{"B", func() error { return v(attB(nil), nil) }, "error"}},
			}, sharedMeas(o)
		}},
		{"shared-getter/A|B", func(f *fixture, pt func(string)) ([][]call, func() string) {
			o := &verify.Options{RootsOfTrust: f.auth.Roots(), Now: f.now, Getter: &pointGetter{pt, f.endBin}}
			v := verify.SNPValidateFunc(o)
			return [][]call{
				{{"A", func() error { return v(attA(nil), nil) }, "nil"}},
				{{"B", func() error { return v(attB(nil), nil) }, "error"}},
			}, sharedMeas(o)
		}},
		{"sequential-reuse/A;B;A|B", func(f *fixture, pt func(string)) ([][]call, func() string) {
			o := &verify.Options{RootsOfTrust: f.auth.Roots(), Now: f.now}
			v := verify.SNPValidateFunc(o)
			return [][]call{
				{{"A", func() error { return v(attA(nil), f.endBin) }, "nil"},
					{"B", func() error { return v(attB(nil), f.endBin) }, "error"},
					{"A2", func() error { return v(attA(nil), f.endBin) }, "nil"}},
				{{"B'", func() error { return v(attB(nil), f.endBin) }, "error"}},
			}, sharedMeas(o)
		}},
		{"recycled-caller-buffers/A;B(forged-in-same-buffer)|A", func(f *fixture, pt func(string)) ([][]call, func() string) {
			// The caller reuses its memory between calls: the endorsement buffer that held the genuine
			// endorsement now holds one whose endorsed measurement was overwritten (stale signature,
			// same length), and the attestation object now carries the unendorsed measurement. A
			// validator that remembers caller memory (a memo of the last accepted endorsement, a
			// retained report) gives call B something other than its isolated result.
			o := &verify.Options{RootsOfTrust: f.auth.Roots(), Now: f.now}
			v := verify.SNPValidateFunc(o)
			buf := append([]byte(nil), f.endBin...)
			at := attA(nil)
			return [][]call{
				{{"A", func() error { return v(at, buf) }, "nil"},
					{"B", func() error {
						copy(buf, f.forgedBin)
						at.Report.Measurement = append([]byte(nil), mB...)
						return v(at, buf)
					}, "error"}},
				{{"A'", func() error { return v(attA(nil), f.endBin) }, "nil"}},
			}, sharedMeas(o)
		}},
		{"preconfigured-measurement-buffer/A|B", func(f *fixture, pt func(string)) ([][]call, func() string) {
			// The caller's Options already carry a measurement (with a backing array the validator
			// could write into): validators built from it still judge each report on its own.
			o := &verify.Options{RootsOfTrust: f.auth.Roots(), Now: f.now, SNP: &verify.SNPOptions{Measurement: append(make([]byte, 0, 64), mC...)}}
			v := verify.SNPValidateFunc(o)
			return [][]call{
				{{"A", func() error { return v(attA(nil), f.endBin) }, "nil"}},
				{{"B", func() error { return v(attB(nil), f.endBin) }, "error"}},
			}, sharedMeas(o)
		}},
		{"default-clock-options-reused/verify;A;B|A", func(f *fixture, pt func(string)) ([][]call, func() string) {
			// The caller leaves Now unset ("verify at the present time") and keeps using one Options
			// value: first directly, then through a validator built from it. The authority of this
			// scenario was bootstrapped at the real present time, so "present" is inside validity.
			o := &verify.Options{RootsOfTrust: f.authNow.Roots()}
			v := verify.SNPValidateFunc(o)
			return [][]call{
				{{"verify", func() error { return verify.Endorsement(f.endNowBin, o) }, "nil"},
					{"A", func() error { return v(attA(nil), f.endNowBin) }, "nil"},
					{"B", func() error { return v(attB(nil), f.endNowBin) }, "error"}},
				{{"A'", func() error { return v(attA(nil), f.endNowBin) }, "nil"}},
			}, sharedMeas(o)
		}},
		{"closure+plain-verify-sharing-options/A|verify(other)", func(f *fixture, pt func(string)) ([][]call, func() string) {
			o := &verify.Options{RootsOfTrust: f.auth.Roots(), Now: f.now}
			v := verify.SNPValidateFunc(o)
			return [][]call{
				{{"A", func() error { return v(attA(nil), f.endBin) }, "nil"}},
				// The caller never configured a measurement: verifying another endorsement must
				// not be compared against the closure's last report.
				{{"verify(end2)", func() error { return verify.Endorsement(f.end2Bin, o) }, "nil"}},
			}, sharedMeas(o)
		}},
		{"SevValidate-shared-options/A|B", func(f *fixture, pt func(string)) ([][]call, func() string) {
			so := &gcetcbendorsement.SevValidateOptions{RootsOfTrust: f.auth.Roots(), Now: f.now,
				BasePolicy: &cpb.Policy{MinimumVersion: "0.0", Policy: prodPolicy}}
			return [][]call{
				{{"A", func() error { return gcetcbendorsement.SevValidate(ctx, attA(f.endBin), so) }, "nil"}},
				{{"B", func() error { return gcetcbendorsement.SevValidate(ctx, attB(f.endBin), so) }, "error"}},
			}, func() string { return "" }
		}},
		{"TdxValidate-shared-options/A|B", func(f *fixture, pt func(string)) ([][]call, func() string) {
			to := &gcetcbendorsement.TdxValidateOptions{RootsOfTrust: f.auth.Roots(), Now: f.now, Endorsement: f.endTdx}
			return [][]call{
					{{"A", func() error { return gcetcbendorsement.TdxValidate(ctx, att.TdxQuote(mA), to) }, "nil"}},
					{{"B", func() error { return gcetcbendorsement.TdxValidate(ctx, att.TdxQuote(mB), to) }, "error"}},
				}, func() string {
					return fmt.Sprintf("now=%d ram=%d overwrite=%v base=%v endorsement=%v", to.Now.UnixNano(), to.ExpectedRAMGiB, to.Overwrite, to.BasePolicy != nil, to.Endorsement != nil)
				}
		}},
		{"SevValidate+TdxValidate-default-clock-shared-options/A;B|tdxA", func(f *fixture, pt func(string)) ([][]call, func() string) {
			// Now unset in options that are used again and again ("validate at the present time")
			so := &gcetcbendorsement.SevValidateOptions{RootsOfTrust: f.authNow.Roots(), BasePolicy: &cpb.Policy{MinimumVersion: "0.0", Policy: prodPolicy}}
			to := &gcetcbendorsement.TdxValidateOptions{RootsOfTrust: f.authNow.Roots(), Endorsement: f.endNowTdx}
			return [][]call{
					{{"A", func() error { return gcetcbendorsement.SevValidate(ctx, attA(f.endNowBin), so) }, "nil"},
						{"B", func() error { return gcetcbendorsement.SevValidate(ctx, attB(f.endNowBin), so) }, "error"}},
					{{"tdxA", func() error { return gcetcbendorsement.TdxValidate(ctx, att.TdxQuote(mA), to) }, "nil"}},
				}, func() string {
					return fmt.Sprintf("sev now=%v/%d vmsas=%d base=%v endorsement=%v | tdx now=%v/%d ram=%d overwrite=%v base=%v", so.Now.IsZero(), so.Now.UnixNano(), so.ExpectedLaunchVmsas, so.BasePolicy != nil, so.Endorsement != nil,
						to.Now.IsZero(), to.Now.UnixNano(), to.ExpectedRAMGiB, to.Overwrite, to.BasePolicy != nil)
				}
		}},
		{"TdxValidate+SevValidate-one-endorsement/A|B", func(f *fixture, pt func(string)) ([][]call, func() string) {
			to := &gcetcbendorsement.TdxValidateOptions{RootsOfTrust: f.auth.Roots(), Now: f.now, Endorsement: f.endTdx}
			so := &gcetcbendorsement.SevValidateOptions{RootsOfTrust: f.auth.Roots(), Now: f.now, Endorsement: f.endTdx,
				BasePolicy: &cpb.Policy{MinimumVersion: "0.0", Policy: prodPolicy}}
			return [][]call{
				{{"tdxB", func() error { return gcetcbendorsement.TdxValidate(ctx, att.TdxQuote(mB), to) }, "error"}},
				{{"sevA", func() error { return gcetcbendorsement.SevValidate(ctx, attA(nil), so) }, "nil"}},
			}, func() string { return "" }
		}},
		{"SevValidate-overwrite-shared-base-policy/A|B", func(f *fixture, pt func(string)) ([][]call, func() string) {
			// Two options together: a base policy (its guest policy left unset) and Overwrite. The base
			// policy object is the caller's and is shared by both calls; it must read afterwards as the
			// caller wrote it.
			so := &gcetcbendorsement.SevValidateOptions{RootsOfTrust: f.auth.Roots(), Now: f.now, Overwrite: true,
				BasePolicy: &cpb.Policy{MinimumVersion: "0.0"}}
			return [][]call{
					{{"A", func() error { return gcetcbendorsement.SevValidate(ctx, attA(f.endBin), so) }, "nil"}},
					{{"B", func() error { return gcetcbendorsement.SevValidate(ctx, attB(f.endBin), so) }, "error"}},
				}, func() string {
					return fmt.Sprintf("overwrite=%v vmsas=%d base={%s}", so.Overwrite, so.ExpectedLaunchVmsas, prototext.MarshalOptions{}.Format(so.BasePolicy))
				}
		}},
		{"SevValidate-shared-options-preset-endorsement/A|B", func(f *fixture, pt func(string)) ([][]call, func() string) {
			so := &gcetcbendorsement.SevValidateOptions{RootsOfTrust: f.auth.Roots(), Now: f.now, Endorsement: f.end,
				BasePolicy: &cpb.Policy{MinimumVersion: "0.0", Policy: prodPolicy}}
			return [][]call{
				{{"A", func() error { return gcetcbendorsement.SevValidate(ctx, attA(nil), so) }, "nil"}},
				{{"B", func() error { return gcetcbendorsement.SevValidate(ctx, attB(nil), so) }, "error"}},
			}, func() string { return "" }
		}},
	}
}

func max(a, b int) int {
	if a > b {
		return a
	}
	return b
}

func min(a, b int) int {
	if a < b {
		return a
	}
	return b
}

func buildFixture(tag string) *fixture {
	auth, err := fx.NewAuthority(fx.T0, tag)
	if err != nil {
		mc.Fatal("%v", err)
	}
	f := &fixture{auth: auth, now: fx.T0.Add(time.Hour)}
	g := att.Golden(map[uint32][]byte{2: mA}, nil, true, nil, false, fx.T0)
	f.end, err = auth.SignGolden(g, fx.T0)
	if err != nil {
		mc.Fatal("%v", err)
	}
	f.endBin, _ = proto.Marshal(f.end)
	{
		// same bytes with the endorsed measurement replaced by mB: not authentic, same length
		fg := &epb.VMGoldenMeasurement{}
		if err := proto.Unmarshal(f.end.SerializedUefiGolden, fg); err != nil {
			mc.Fatal("%v", err)
		}
		fg.SevSnp.Measurements[2] = mB
		pb, _ := proto.Marshal(fg)
		f.forgedBin, _ = proto.Marshal(&epb.VMLaunchEndorsement{SerializedUefiGolden: pb, Signature: f.end.Signature})
		if len(f.forgedBin) != len(f.endBin) {
			mc.Fatal("forged endorsement has a different length")
		}
	}
	{
		// an authority whose certificates start at the real present time, for the scenario in which
		// the caller leaves Options.Now unset
		present := time.Now().Add(-time.Hour).UTC().Truncate(time.Second)
		f.authNow, err = fx.NewAuthority(present, tag+"-now")
		if err != nil {
			mc.Fatal("%v", err)
		}
		en, err := f.authNow.SignGolden(att.Golden(map[uint32][]byte{2: mA}, nil, true, nil, false, present), present)
		if err != nil {
			mc.Fatal("%v", err)
		}
		f.endNowBin, _ = proto.Marshal(en)
		f.endNowTdx, err = f.authNow.SignGolden(att.Golden(map[uint32][]byte{2: mA}, nil, true, []att.TdxRow{{0, false, mA}}, true, present), present)
		if err != nil {
			mc.Fatal("%v", err)
		}
	}
	{
		// one endorsement with both technologies: SNP measurement mA and one TDX row with MRTD mA
		gt := att.Golden(map[uint32][]byte{2: mA}, nil, true, []att.TdxRow{{0, false, mA}}, true, fx.T0)
		f.endTdx, err = auth.SignGolden(gt, fx.T0)
		if err != nil {
			mc.Fatal("%v", err)
		}
	}
	g2 := att.Golden(map[uint32][]byte{2: mC}, nil, true, nil, false, fx.T0)
	f.end2, _ = auth.SignGolden(g2, fx.T0)
	f.end2Bin, _ = proto.Marshal(f.end2)
	return f
}

// explore runs one scenario under the cooperative scheduler (single-threaded: the woven hook is
// global) for bounds 0..bound, or replays one schedule.
func explore(r *mc.Run, f *fixture, sc scenario, bound int) {
	perBound := map[int]int64{}
	curBound := 0
	body := func(c *mc.Chooser) string {
		s := mc.NewSched(c)
		vhook.PointFn, vhook.BlockFn = s.Point, s.Block
		defer func() { vhook.PointFn, vhook.BlockFn = nil, nil }()
		threads, shared := sc.build(f, s.Point)
		configured := shared()
		results := make([][]string, len(threads))
		for ti, calls := range threads {
			ti, calls := ti, calls
			results[ti] = make([]string, len(calls))
			s.Spawn(func() {
				for ci, cl := range calls {
					s.Point("call:" + cl.name)
					results[ti][ci] = res(cl.run())
				}
			})
		}
		overlap := false
		s.Observe = func(pcs []string) string {
			inflight := 0
			for _, pc := range pcs {
				if pc != "start" && pc != "end" && !strings.HasPrefix(pc, "call:") {
					inflight++
				}
			}
			if inflight >= 2 {
				overlap = true
			}
			return strings.Join(pcs, "|") + "#" + shared()
		}
		s.Run()
		r.Eval()
		r.Transition(s.Steps)
		pre := 0
		for _, p := range c.Points {
			if p.Choice != 0 && !p.Free {
				pre++
			}
		}
		if pre == curBound {
			perBound[pre]++
		}
		for k := range s.States {
			r.State(sc.name + "#" + k)
		}
		id := fmt.Sprintf("scenario=%s schedule=%s", sc.name, mc.ChoicesString(c.Choices()))
		var obs []string
		switch {
		case s.Deadlock:
			r.Violation("deadlock/"+sc.name, id, "no call can continue: every unfinished call waits for a lock another unfinished call holds (pcs "+strings.Join(s.Trace[max(0, len(s.Trace)-4):], " ")+")", map[string]any{"schedule": s.Trace})
		case s.Aborted:
			r.Violation("horizon/"+sc.name, id, "execution exceeded the step horizon (livelock?)", nil)
		}
		if after := shared(); after != configured && !s.Deadlock && !s.Aborted {
			r.Violation("caller-options-modified/"+sc.name, id,
				fmt.Sprintf("scenario %s: the Options value the caller configured reads %q before and %q after the calls: later calls no longer depend only on what the caller configured", sc.name, configured, after),
				map[string]any{"schedule": s.Trace})
		}
		for ti, calls := range threads {
			for ci, cl := range calls {
				got := results[ti][ci]
				if p := s.ThreadPanic(ti); p != nil {
					got = fmt.Sprintf("panic: %v", p)
				}
				obs = append(obs, fmt.Sprintf("t%d.%s=%s", ti, cl.name, got))
				if got != cl.want {
					kind := "result-differs-from-isolation"
					if cl.want == "error" && got == "nil" {
						kind = "unendorsed-report-accepted"
					}
					r.Violation(sc.name+"/"+kind, id,
						fmt.Sprintf("scenario %s: call %s returned %s, in isolation it returns %s (preemptions=%d)", sc.name, cl.name, got, cl.want, pre),
						map[string]any{"schedule": s.Trace, "preemptions": pre})
				}
			}
		}
		r.Validated()
		outcome := strings.Join(obs, " ")
		if pre == curBound {
			if r.State("outcome:" + sc.name + "=>" + outcome) {
				r.Sample(map[string]any{"scenario": sc.name, "preemptions": pre, "results": obs, "steps": s.Steps, "schedule": mc.ChoicesString(c.Choices())})
			}
			if pre > 0 && overlap {
				r.Nontrivial(id)
			}
			r.Outcome(fmt.Sprintf("preemptions=%d", pre))
		}
		return outcome + " trace=" + strings.Join(s.Trace, ",")
	}
	if r.Replaying() {
		pfx := fmt.Sprintf("scenario=%s schedule=", sc.name)
		if strings.HasPrefix(r.ReplayID, pfx) {
			cs := mc.ParseChoices(strings.TrimPrefix(r.ReplayID, pfx))
			r.Case(r.ReplayID, func() string { return body(mc.NewChooser(cs)) })
		}
		return
	}
	// Iterate the bound so that the first counterexample recorded has the fewest preemptions.
	for b := 0; b <= bound; b++ {
		curBound = b
		ex := &mc.Explorer{Bound: b, Workers: 1, Stop: r.Expired, Body: func(c *mc.Chooser) { body(c) }}
		ex.Run()
		r.Add(fmt.Sprintf("schedules_with_%d_preemptions", b), perBound[b])
		if ex.CapHit {
			r.Cap(fmt.Sprintf("scenario %s stopped at the internal deadline in bound %d", sc.name, b))
		}
	}
}

func main() {
	if len(os.Args) > 1 && os.Args[1] == "race" {
		raceMain()
		return
	}
	if len(os.Args) > 1 && os.Args[1] == "worker" {
		// worker <tier> <scenario index> <bound> <budget seconds>
		idx, _ := strconv.Atoi(os.Args[3])
		bound, _ := strconv.Atoi(os.Args[4])
		secs, _ := strconv.Atoi(os.Args[5])
		r := mc.NewWorkerRun("C09", os.Args[2], time.Duration(secs)*time.Second)
		explore(r, buildFixture("c09w"), scenarios()[idx], bound)
		r.ExportAndExit()
	}
	r := mc.NewRun("C09")
	bound := mc.Pick(r, 2, 3)
	r.Rule(fmt.Sprintf("E2 preemption-bounded DFS (bounds 0..%d, iterated) over all interleavings of 2-4 validator calls sharing an Options value, a closure, an endorsement or caller buffers, scheduling point before every statement of verify/verify.go and gcetcbendorsement/{sevvalidate,tdxvalidate,sevpolicy,tdxpolicy}.go, at lock/once/wait-group operations (blocking) and at the shared getter; %d scenarios, one single-threaded worker process per scenario; every call must return its isolated result and the shared Options must read afterwards as configured; states = distinct (pc vector, shared state rendering); non-trivial = distinct schedules with at least one preemption in which two calls were simultaneously inside the validator", bound, len(scenarios())))
	r.Assume("memory-model effects below statement granularity are left to the separate free-running -race pass (./check C09 thorough runs it; supplementary, not deciding)")
	f := buildFixture("c09")
	// Isolation results are part of the scenario table; check them once sequentially (non-vacuity).
	for _, sc := range scenarios() {
		n := len(mustBuild(sc, f, func(string) {}))
		for ti := 0; ti < n; ti++ {
			threads := mustBuild(sc, f, func(string) {})
			c := threads[ti][0]
			if got := res(c.run()); got != c.want {
				mc.Fatal("scenario %s: call %s in isolation returned %s, scenario table says %s", sc.name, c.name, got, c.want)
			}
		}
	}
	if r.Replaying() {
		for _, sc := range scenarios() {
			explore(r, f, sc, bound)
		}
		r.Finish()
	}
	var jobs []mc.WorkerJob
	secs := int(time.Until(r.Deadline).Seconds())
	for i := range scenarios() {
		jobs = append(jobs, mc.WorkerJob{Args: []string{r.Tier, strconv.Itoa(i), strconv.Itoa(bound), strconv.Itoa(secs)}, Env: []string{"GOMAXPROCS=1"}})
	}
	r.RunWorkers(jobs, runtime.NumCPU(), func(j mc.WorkerJob, out []byte, err error) {
		tail := out
		if len(tail) > 2000 {
			tail = tail[len(tail)-2000:]
		}
		mc.Fatal("worker %v failed: %v\n%s", j.Args, err, tail)
	})
	r.Set("preemption_bound_completed", bound)
	r.Set("scenarios", len(scenarios()))
	r.Finish()
}

func mustBuild(sc scenario, f *fixture, pt func(string)) [][]call {
	t, _ := sc.build(f, pt)
	return t
}
