// C07 — relying-party decoders are total on untrusted bytes.
//
// Engine E5 + guarded workers: genuine baselines (endorsement; attestations in every accepted
// format; certificate table; event log with SP800-155 events of every locator type; event payload)
// are deviated by every truncation, byte substitutions and 32-bit length-like substitutions at
// every offset, proto field removal, plus all tiny byte strings; each case runs on the real entry
// point in a worker process that journals START/DONE, measures allocation deterministically and
// may die without taking the check down.
package main

import (
	"bytes"
	"context"
	"crypto/x509"
	"encoding/base64"
	"encoding/binary"
	"encoding/gob"
	"encoding/hex"
	"encoding/pem"
	"fmt"
	"io"
	"os"
	"path/filepath"
	"strings"
	"time"

	"github.com/google/gce-tcb-verifier/cmd/output"
	"github.com/google/gce-tcb-verifier/eventlog"
	"github.com/google/gce-tcb-verifier/extract"
	exel "github.com/google/gce-tcb-verifier/extract/eventlog"
	"github.com/google/gce-tcb-verifier/extract/extractsev"
	"github.com/google/gce-tcb-verifier/gcetcbendorsement"
	epb "github.com/google/gce-tcb-verifier/proto/endorsement"
	"github.com/google/gce-tcb-verifier/sev"
	"github.com/google/gce-tcb-verifier/verify"
	"github.com/google/go-sev-guest/abi"
	cpb "github.com/google/go-sev-guest/proto/check"
	spb "github.com/google/go-sev-guest/proto/sevsnp"
	sgtest "github.com/google/go-sev-guest/testing"
	tabi "github.com/google/go-tdx-guest/abi"
	tpb "github.com/google/go-tdx-guest/proto/tdx"
	tpmpb "github.com/google/go-tpm-tools/proto/attest"
	"github.com/google/uuid"
	"google.golang.org/protobuf/proto"
	fmpb "google.golang.org/protobuf/types/known/fieldmaskpb"

	"verifharness/att"
	"verifharness/fx"
	"verifharness/kmfx"
	"verifharness/mc"
	"verifharness/rpcli"
)

// corpus is built once by the parent (it involves fresh keys) and loaded by the workers.
type corpus struct {
	RootDER     []byte
	Endorsement []byte
	Now         time.Time
	Seeds       []seed
	Scratch     string
	Tier        string
}

type seed struct {
	EP   string
	Name string
	Data []byte
}

var (
	m1        = att.Meas(0x11)
	u32Values = []uint32{0, 1, 0x7fffffff, 0x80000000, 0xffffffff, 0xfffffff0, 0x10000, 0x1000000}
	byteVals  = []byte{0x00, 0x01, 0x7f, 0x80, 0xff}
)

type family struct {
	count func(b []byte) int
	apply func(b []byte, k int) ([]byte, string)
}

func families(stride int) []family {
	return []family{
		{func(b []byte) int { return len(b) + 1 }, func(b []byte, k int) ([]byte, string) { return b[:k], fmt.Sprintf("trunc@%d", k) }},
		{func(b []byte) int { return (len(b) + stride - 1) / stride * len(byteVals) }, func(b []byte, k int) ([]byte, string) {
			off, v := (k/len(byteVals))*stride, byteVals[k%len(byteVals)]
			c := append([]byte(nil), b...)
			c[off] = v
			return c, fmt.Sprintf("byte@%d=%#x", off, v)
		}},
		{func(b []byte) int {
			if len(b) < 4 {
				return 0
			}
			return (len(b) - 3 + stride - 1) / stride * (len(u32Values) + 3)
		}, func(b []byte, k int) ([]byte, string) {
			nv := len(u32Values) + 3
			off, vi := (k/nv)*stride, k%nv
			var v uint32
			switch {
			case vi < len(u32Values):
				v = u32Values[vi]
			case vi == len(u32Values):
				v = uint32(len(b))
			case vi == len(u32Values)+1:
				v = uint32(len(b) + 1)
			default:
				v = uint32(len(b) - off)
			}
			c := append([]byte(nil), b...)
			binary.LittleEndian.PutUint32(c[off:], v)
			return c, fmt.Sprintf("u32@%d=%#x", off, v)
		}},
	}
}

// tiny enumerates all byte strings of length <=2 and strings of length 3-4 over a small alphabet.
func tiny() [][]byte {
	out := [][]byte{{}}
	for a := 0; a < 256; a++ {
		out = append(out, []byte{byte(a)})
	}
	for a := 0; a < 256; a++ {
		for b := 0; b < 256; b++ {
			out = append(out, []byte{byte(a), byte(b)})
		}
	}
	al := []byte{0x00, 0x01, 0x0a, 0x12, 0x80, 0xff}
	for _, a := range al {
		for _, b := range al {
			for _, c := range al {
				out = append(out, []byte{a, b, c})
				for _, d := range al {
					out = append(out, []byte{a, b, c, d})
				}
			}
		}
	}
	return out
}

type getter struct{ body []byte }

func (g *getter) Get(string) ([]byte, error) { return g.body, nil }

type varReader struct{ body []byte }

func (v *varReader) ReadVariable(uuid.UUID, []uint8) ([]byte, error) { return v.body, nil }

type discard struct{}

func (discard) Write(p []byte) (int, error) { return len(p), nil }
func (discard) IsTerminal() bool            { return false }

func errClass(e error) string {
	if e == nil {
		return "ok"
	}
	s := e.Error()
	if i := strings.IndexAny(s, ":0123456789"); i > 8 {
		s = s[:i]
	}
	if len(s) > 60 {
		s = s[:60]
	}
	return "err " + s
}

// entry points: name -> function of (corpus, input) returning an outcome class.
func entryPoints(c *corpus) map[string]func(b []byte) string {
	roots := x509.NewCertPool()
	if rc, err := x509.ParseCertificate(c.RootDER); err == nil {
		roots.AddCert(rc)
	}
	ctx := output.NewContext(context.Background(), &output.Options{Quiet: true})
	prod := abi.SnpPolicyToBytes(abi.SnpPolicy{SMT: true, MigrateMA: true})
	genuine := &epb.VMLaunchEndorsement{}
	proto.Unmarshal(c.Endorsement, genuine)
	elFile := filepath.Join(c.Scratch, fmt.Sprintf("el-%d.bin", os.Getpid()))
	efiRoot := filepath.Join(c.Scratch, "efivars")
	consume := func(e *epb.VMLaunchEndorsement) string {
		var outs []string
		_, err := gcetcbendorsement.SevPolicy(ctx, e, &gcetcbendorsement.SevPolicyOptions{LaunchVmsas: 1})
		outs = append(outs, errClass(err))
		_, err = gcetcbendorsement.SevPolicy(ctx, e, &gcetcbendorsement.SevPolicyOptions{AllowUnspecifiedVmsas: true, Base: &cpb.Policy{Policy: prod}})
		outs = append(outs, errClass(err))
		_, err = gcetcbendorsement.TdxPolicy(ctx, e, &gcetcbendorsement.TdxPolicyOptions{})
		outs = append(outs, errClass(err))
		outs = append(outs, errClass(gcetcbendorsement.SevValidate(ctx, att.Snp(m1, nil), &gcetcbendorsement.SevValidateOptions{Endorsement: e, RootsOfTrust: roots, Now: c.Now, BasePolicy: &cpb.Policy{MinimumVersion: "0.0", Policy: prod}})))
		outs = append(outs, errClass(gcetcbendorsement.TdxValidate(ctx, att.TdxQuote(nil), &gcetcbendorsement.TdxValidateOptions{Endorsement: e, RootsOfTrust: roots, Now: c.Now})))
		ictx := gcetcbendorsement.WithInspect(ctx, &gcetcbendorsement.Inspect{Writer: discard{}, Form: gcetcbendorsement.BytesRaw})
		outs = append(outs, errClass(gcetcbendorsement.InspectPayload(ictx, e)), errClass(gcetcbendorsement.InspectSignature(ictx, e)))
		for _, p := range []string{"cert", "timestamp", "digest", "sev_snp.measurements", "tdx.measurements", "sev_snp.policy", "ca_bundle"} {
			outs = append(outs, errClass(gcetcbendorsement.InspectMask(ictx, e, &fmpb.FieldMask{Paths: []string{p}})))
		}
		return strings.Join(outs, "|")
	}
	locateAll := func(el *eventlog.CryptoAgileLog) string {
		var outs []string
		for typ, evs := range exel.RIMEventsFromEventLog(el) {
			for _, ev := range evs {
				_, err := exel.Locate(typ, ev.RIMLocator.Data, &exel.LocateOptions{Getter: &getter{c.Endorsement}, UEFIVariableReader: &varReader{c.Endorsement}})
				outs = append(outs, errClass(err))
				_, err = exel.Locate(typ, ev.RIMLocator.Data, &exel.LocateOptions{Getter: &getter{c.Endorsement}, UEFIVariableReader: exel.MakeEfiVarFSReader(efiRoot)})
				outs = append(outs, errClass(err))
				// a caller that configured neither a getter nor a variable reader
				_, err = exel.Locate(typ, ev.RIMLocator.Data, &exel.LocateOptions{})
				outs = append(outs, errClass(err))
			}
		}
		return strings.Join(outs, "|")
	}
	return map[string]func(b []byte) string{
		"verify.Endorsement": func(b []byte) string {
			return errClass(verify.Endorsement(b, &verify.Options{RootsOfTrust: roots, Now: c.Now, SNP: &verify.SNPOptions{Measurement: m1}}))
		},
		"endorsement-consumers": func(b []byte) string {
			e := &epb.VMLaunchEndorsement{}
			if proto.Unmarshal(b, e) != nil {
				return "not-an-endorsement"
			}
			return consume(e)
		},
		"SNPValidateFunc(blob)": func(b []byte) string {
			return errClass(verify.SNPValidateFunc(&verify.Options{RootsOfTrust: roots, Now: c.Now})(att.Snp(m1, nil), b))
		},
		"SevValidate(extras)": func(b []byte) string {
			return errClass(gcetcbendorsement.SevValidate(ctx, att.Snp(m1, b), &gcetcbendorsement.SevValidateOptions{RootsOfTrust: roots, Now: c.Now}))
		},
		"extract.Attestation": func(b []byte) string {
			a, err := extract.Attestation(b)
			if err != nil {
				return errClass(err)
			}
			return fmt.Sprintf("ok %T", a.TeeAttestation)
		},
		"validate(attestation)": func(b []byte) string {
			a, err := extract.Attestation(b)
			if err != nil {
				return errClass(err)
			}
			switch t := a.TeeAttestation.(type) {
			case *tpmpb.Attestation_SevSnpAttestation:
				// with the endorsement handed over, and with only a getter to fetch it through
				return "snp " + errClass(gcetcbendorsement.SevValidate(ctx, t.SevSnpAttestation, &gcetcbendorsement.SevValidateOptions{Endorsement: genuine, RootsOfTrust: roots, Now: c.Now})) +
					"|" + errClass(gcetcbendorsement.SevValidate(ctx, t.SevSnpAttestation, &gcetcbendorsement.SevValidateOptions{Getter: &getter{c.Endorsement}, RootsOfTrust: roots, Now: c.Now}))
			default:
				return "tdx " + errClass(gcetcbendorsement.TdxValidate(ctx, b, &gcetcbendorsement.TdxValidateOptions{Endorsement: genuine, RootsOfTrust: roots, Now: c.Now}))
			}
		},
		"extractsev.FromCertTable": func(b []byte) string {
			_, err := extractsev.FromCertTable(b)
			return errClass(err)
		},
		"extract.Endorsement(quote)": func(b []byte) string {
			_, err := extract.Endorsement(&extract.Options{Quote: b, Getter: &getter{c.Endorsement}})
			_, err2 := extract.Endorsement(&extract.Options{Quote: b, Getter: &getter{c.Endorsement}, ForceFetch: true})
			// nothing configured but the quote; and the extract command itself on a machine without a
			// quote provider (in-process, the file holds the untrusted bytes)
			_, err3 := extract.Endorsement(&extract.Options{Quote: b})
			out := errClass(err) + "|" + errClass(err2) + "|" + errClass(err3)
			if rpcli.Available {
				res := rpcli.Run(c.Now, &getter{c.Endorsement}, map[string][]byte{"att": b}, "extract", "att", "--out=o", "--eventlog="+elFile+".absent", "--efivarfs="+efiRoot)
				if res.Panicked != nil {
					panic(res.Panicked)
				}
				out += "|cli:" + errClass(res.Err)
			}
			return out
		},
		"extract.Endorsement(eventlog)": func(b []byte) string {
			os.WriteFile(elFile, b, 0o644)
			_, err := extract.Endorsement(&extract.Options{EventLogLocation: elFile, Getter: &getter{c.Endorsement}, UEFIVariableReader: &varReader{c.Endorsement}, FirmwareManufacturer: extract.GCEFirmwareManufacturer})
			_, err2 := extract.Endorsement(&extract.Options{EventLogLocation: elFile, Getter: &getter{c.Endorsement}, UEFIVariableReader: exel.MakeEfiVarFSReader(efiRoot)})
			_, err3 := extract.Endorsement(&extract.Options{EventLogLocation: elFile}) // neither getter nor variable reader configured
			return errClass(err) + "|" + errClass(err2) + "|" + errClass(err3)
		},
		"CryptoAgileLog.Unmarshal+Locate": func(b []byte) string {
			el := &eventlog.CryptoAgileLog{}
			if err := el.Unmarshal(bytes.NewReader(b)); err != nil {
				return errClass(err)
			}
			return fmt.Sprintf("ok events=%d %s", len(el.Events), locateAll(el))
		},
		"SP800155Event3.UnmarshalFromBytes": func(b []byte) string {
			ev := &eventlog.SP800155Event3{}
			if err := ev.UnmarshalFromBytes(b); err != nil {
				return errClass(err)
			}
			_, err := exel.Locate(ev.RIMLocatorType, ev.RIMLocator.Data, &exel.LocateOptions{Getter: &getter{c.Endorsement}, UEFIVariableReader: exel.MakeEfiVarFSReader(efiRoot)})
			return "ok " + errClass(err)
		},
		"Locate(variable)": func(b []byte) string {
			_, err := exel.Locate(eventlog.RIMLocationVariable, b, &exel.LocateOptions{UEFIVariableReader: exel.MakeEfiVarFSReader(efiRoot)})
			_, err2 := exel.Locate(eventlog.RIMLocationVariable, b, &exel.LocateOptions{})
			return errClass(err) + "|" + errClass(err2)
		},
	}
}

func sp800(locType uint32, loc []byte) *eventlog.SP800155Event3 {
	return &eventlog.SP800155Event3{PlatformManufacturerID: 11129, ReferenceManifestGUID: eventlog.EfiGUID{UUID: uuid.MustParse("a2858e46-a37f-456a-8c79-0c1fe48b65ff")},
		PlatformManufacturerStr: eventlog.ByteSizedCStr{Data: "Google, Inc."}, PlatformModel: eventlog.ByteSizedCStr{Data: "Google Compute Engine"},
		PlatformVersion: eventlog.ByteSizedCStr{Data: ""}, FirmwareManufacturerStr: eventlog.ByteSizedCStr{Data: "Google, Inc."}, FirmwareManufacturerID: 11129,
		FirmwareVersion: eventlog.ByteSizedCStr{Data: "2.7"}, RIMLocatorType: locType, RIMLocator: eventlog.Uint32SizedArray{Data: loc}}
}

func buildCorpus(r *mc.Run) *corpus {
	auth, err := fx.NewAuthority(fx.T0, "c07")
	if err != nil {
		mc.Fatal("%v", err)
	}
	quoteMrtd := att.TdxQuote(nil)[att.MrtdOffset : att.MrtdOffset+48]
	g := att.Golden(map[uint32][]byte{1: m1}, m1, true, []att.TdxRow{{0, false, quoteMrtd}}, true, fx.T0)
	e, err := auth.SignGolden(proto.Clone(g).(*epb.VMGoldenMeasurement), fx.T0)
	if err != nil {
		mc.Fatal("%v", err)
	}
	eb, _ := proto.Marshal(e)
	c := &corpus{RootDER: auth.RootCert.Raw, Endorsement: eb, Now: fx.T0.Add(time.Hour), Scratch: kmfx.ScratchRoot(), Tier: r.Tier}
	add := func(ep, name string, b []byte) { c.Seeds = append(c.Seeds, seed{ep, name, b}) }
	// Endorsement seeds: genuine + each golden-measurement field cleared.
	endEPs := []string{"verify.Endorsement", "endorsement-consumers", "SNPValidateFunc(blob)", "SevValidate(extras)"}
	variants := map[string][]byte{"genuine": eb}
	signed := &epb.VMGoldenMeasurement{}
	proto.Unmarshal(e.SerializedUefiGolden, signed)
	pemCert := pem.EncodeToMemory(&pem.Block{Type: "CERTIFICATE", Bytes: auth.RootCert.Raw})
	clear := map[string]func(*epb.VMGoldenMeasurement){
		"no-timestamp": func(g *epb.VMGoldenMeasurement) { g.Timestamp = nil }, "no-cert": func(g *epb.VMGoldenMeasurement) { g.Cert = nil },
		"no-digest": func(g *epb.VMGoldenMeasurement) { g.Digest = nil }, "no-sevsnp": func(g *epb.VMGoldenMeasurement) { g.SevSnp = nil },
		"no-tdx": func(g *epb.VMGoldenMeasurement) { g.Tdx = nil }, "no-bundle": func(g *epb.VMGoldenMeasurement) { g.CaBundle = nil },
		"no-clspec": func(g *epb.VMGoldenMeasurement) { g.ClSpec = 0 }, "empty-measurements": func(g *epb.VMGoldenMeasurement) { g.SevSnp.Measurements = nil },
		"nil-tdx-row":  func(g *epb.VMGoldenMeasurement) { g.Tdx.Measurements = []*epb.VMTdx_Measurement{{}} },
		"snp-bundle-1": func(g *epb.VMGoldenMeasurement) { g.SevSnp.CaBundle = pemCert },
		"snp-bundle-2": func(g *epb.VMGoldenMeasurement) {
			g.SevSnp.CaBundle = append(append([]byte(nil), pemCert...), pemCert...)
		},
		"snp-bundle-3": func(g *epb.VMGoldenMeasurement) {
			g.SevSnp.CaBundle = append(append(append([]byte(nil), pemCert...), pemCert...), pemCert...)
		},
		"snp-bundle-1+junk": func(g *epb.VMGoldenMeasurement) {
			g.SevSnp.CaBundle = append(append([]byte(nil), pemCert...), []byte("junk")...)
		},
		"bundle-garbage": func(g *epb.VMGoldenMeasurement) {
			g.SevSnp.CaBundle = []byte("-----BEGIN X-----\nAA==\n-----END X-----\n")
		},
	}
	for name, f := range clear {
		g2 := proto.Clone(signed).(*epb.VMGoldenMeasurement)
		f(g2)
		p, _ := proto.Marshal(g2)
		b, _ := proto.Marshal(&epb.VMLaunchEndorsement{SerializedUefiGolden: p, Signature: e.Signature})
		variants[name] = b
	}
	variants["empty-endorsement"] = []byte{}
	variants["payload-empty"], _ = proto.Marshal(&epb.VMLaunchEndorsement{Signature: e.Signature})
	for _, ep := range endEPs {
		for name, b := range variants {
			add(ep, name, b)
		}
	}
	// Attestation seeds.
	snp := att.Snp(m1, eb)
	tpmSnp, _ := proto.Marshal(&tpmpb.Attestation{TeeAttestation: &tpmpb.Attestation_SevSnpAttestation{SevSnpAttestation: snp}})
	snpProto, _ := proto.Marshal(snp)
	repProto, _ := proto.Marshal(snp.Report)
	raw := sgtest.TestRawReport([64]byte{1})
	table := abi.CertsFromProto(&spb.CertificateChain{VcekCert: att.Vcek(), Extras: map[string][]byte{sev.GCEFwCertGUID: eb}}).Marshal()
	rawCerts := append(append([]byte(nil), raw[:abi.ReportSize]...), table...)
	quote := att.TdxQuote(nil)
	qp, _ := tabi.QuoteToProto(quote)
	var quoteProto, tpmTdx []byte
	if m, ok := qp.(proto.Message); ok {
		quoteProto, _ = proto.Marshal(m)
	}
	tpmTdx, _ = proto.Marshal(&tpmpb.Attestation{TeeAttestation: &tpmpb.Attestation_TdxAttestation{TdxAttestation: mustQuoteV4(quote)}})
	atts := map[string][]byte{"tpm-snp": tpmSnp, "snp-attestation-proto": snpProto, "report-proto": repProto, "raw-report": raw[:abi.ReportSize], "raw-report-response-4000": raw[:], "raw-report+certs": rawCerts,
		"cert-table": table, "tdx-quote-proto": quoteProto, "raw-tdx-quote": quote, "tpm-tdx": tpmTdx,
		"hex-raw-report": []byte(hex.EncodeToString(raw[:abi.ReportSize])), "base64-raw-quote": []byte(base64.StdEncoding.EncodeToString(quote))}
	// Structurally thinner attestations of the wrapper format (a field-level deviation no byte
	// substitution produces): the SEV-SNP attestation without its report, without its certificate
	// chain, without extras in the chain, entirely empty; the TDX wrapper with an empty quote.
	for name, a := range map[string]*tpmpb.Attestation{
		"tpm-snp-without-report":                           {TeeAttestation: &tpmpb.Attestation_SevSnpAttestation{SevSnpAttestation: &spb.Attestation{CertificateChain: snp.CertificateChain}}},
		"tpm-snp-without-chain":                            {TeeAttestation: &tpmpb.Attestation_SevSnpAttestation{SevSnpAttestation: &spb.Attestation{Report: snp.Report}}},
		"tpm-snp-chain-without-extras":                     {TeeAttestation: &tpmpb.Attestation_SevSnpAttestation{SevSnpAttestation: &spb.Attestation{Report: snp.Report, CertificateChain: &spb.CertificateChain{VcekCert: att.Vcek()}}}},
		"tpm-snp-empty":                                    {TeeAttestation: &tpmpb.Attestation_SevSnpAttestation{SevSnpAttestation: &spb.Attestation{}}},
		"tpm-snp-report-without-chain-extras-empty-report": {TeeAttestation: &tpmpb.Attestation_SevSnpAttestation{SevSnpAttestation: &spb.Attestation{Report: &spb.Report{}, CertificateChain: &spb.CertificateChain{}}}},
		"tpm-tdx-empty-quote":                              {TeeAttestation: &tpmpb.Attestation_TdxAttestation{TdxAttestation: &tpb.QuoteV4{}}},
	} {
		b, _ := proto.Marshal(a)
		atts[name] = b
	}
	for _, ep := range []string{"extract.Attestation", "validate(attestation)", "extract.Endorsement(quote)"} {
		for name, b := range atts {
			add(ep, name, b)
		}
	}
	add("extractsev.FromCertTable", "cert-table", table)
	add("extractsev.FromCertTable", "raw-report+certs", rawCerts)
	// Event-log seeds.
	rimVar := append(append([]byte{0x46, 0x8e, 0x85, 0xa2, 0x7f, 0xa3, 0x6a, 0x45, 0x8c, 0x79, 0x0c, 0x1f, 0xe4, 0x8b, 0x65, 0xff}, []byte("F\x00i\x00r\x00m\x00w\x00a\x00r\x00e\x00R\x00I\x00M\x00")...), 0, 0)
	locs := map[string]*eventlog.SP800155Event3{"raw": sp800(eventlog.RIMLocationRaw, eb[:64]), "uri": sp800(eventlog.RIMLocationURI, []byte("https://storage.googleapis.com/gce_tcb_integrity/x")),
		"variable": sp800(eventlog.RIMLocationVariable, rimVar), "local": sp800(eventlog.RIMLocationLocal, []byte("path"))}
	mkLog := func(evs ...*eventlog.SP800155Event3) []byte {
		l := &eventlog.CryptoAgileLog{Header: eventlog.TCGPCClientPCREvent{EventType: eventlog.EvNoAction, EventData: eventlog.TCGEventData{Event: &eventlog.UnknownEvent{Data: []byte("Spec ID Event03\x00")}}}}
		for _, ev := range evs {
			l.Events = append(l.Events, &eventlog.TCGPCREvent2{EventType: eventlog.EvNoAction,
				Digests:   eventlog.Uint32SizedArrayT[*eventlog.TaggedDigest]{Array: []*eventlog.TaggedDigest{{AlgID: 0xb, Digest: make([]byte, 32)}, {AlgID: 0xc, Digest: make([]byte, 48)}}},
				EventData: eventlog.TCGEventData{Event: ev}})
		}
		var buf bytes.Buffer
		if err := l.Marshal(&buf); err != nil {
			mc.Fatal("marshal event log: %v", err)
		}
		return buf.Bytes()
	}
	logs := map[string][]byte{"all-locators": mkLog(locs["variable"], locs["uri"], locs["raw"], locs["local"]), "variable-only": mkLog(locs["variable"]), "header-only": mkLog()}
	for _, ep := range []string{"CryptoAgileLog.Unmarshal+Locate", "extract.Endorsement(eventlog)"} {
		for name, b := range logs {
			add(ep, name, b)
		}
	}
	for name, ev := range locs {
		b, err := ev.MarshalToBytes()
		if err != nil {
			mc.Fatal("%v", err)
		}
		add("SP800155Event3.UnmarshalFromBytes", name, b[eventlog.EventSignatureSize:])
		add("SP800155Event3.UnmarshalFromBytes", name+"+pad", append(b[eventlog.EventSignatureSize:], 0, 0, 0, 0, 0))
	}
	add("Locate(variable)", "FirmwareRIM", rimVar)
	add("Locate(variable)", "dotdot", append(append(append([]byte(nil), rimVar[:16]...), []byte(".\x00.\x00/\x00.\x00.\x00/\x00x\x00")...), 0, 0))
	// efivarfs scratch root with one variable, a symlinked directory and a sentinel outside.
	efi := filepath.Join(c.Scratch, "efivars")
	os.MkdirAll(efi, 0o755)
	os.WriteFile(filepath.Join(efi, "FirmwareRIM-a2858e46-a37f-456a-8c79-0c1fe48b65ff"), append([]byte{7, 0, 0, 0}, eb...), 0o644)
	os.WriteFile(filepath.Join(c.Scratch, "outside-secret"), []byte("SENTINEL"), 0o644)
	os.Symlink(c.Scratch, filepath.Join(efi, "up"))
	return c
}

func mustQuoteV4(q []byte) *tpb.QuoteV4 {
	p, err := tabi.QuoteToProto(q)
	if err != nil {
		mc.Fatal("quote: %v", err)
	}
	return p.(*tpb.QuoteV4)
}

// buildGuarded constructs the case table from the corpus (identical in parent and workers).
func buildGuarded(c *corpus) (*mc.Guarded, func(i int) (ep, id string)) {
	eps := entryPoints(c)
	stride := 1
	if c.Tier == "quick" {
		stride = 4
	}
	repeatAll := c.Tier != "quick"
	fams := families(stride)
	type block struct {
		seed  int
		fam   int
		start int
		n     int
	}
	var blocks []block
	total := 0
	for si, s := range c.Seeds {
		for fi, f := range fams {
			n := f.count(s.Data)
			blocks = append(blocks, block{si, fi, total, n})
			total += n
		}
	}
	tinyEPs := []string{"verify.Endorsement", "endorsement-consumers", "extract.Attestation", "extractsev.FromCertTable", "extract.Endorsement(quote)", "CryptoAgileLog.Unmarshal+Locate", "SP800155Event3.UnmarshalFromBytes", "Locate(variable)", "extract.Endorsement(eventlog)", "validate(attestation)"}
	tinies := tiny()
	tinyStart := total
	total += len(tinyEPs) * len(tinies)
	find := func(i int) (ep string, name string, data func() []byte) {
		if i >= tinyStart {
			k := i - tinyStart
			e, t := tinyEPs[k/len(tinies)], tinies[k%len(tinies)]
			return e, "tiny " + hex.EncodeToString(t), func() []byte { return t }
		}
		lo, hi := 0, len(blocks)-1
		for lo < hi {
			mid := (lo + hi + 1) / 2
			if blocks[mid].start <= i {
				lo = mid
			} else {
				hi = mid - 1
			}
		}
		for blocks[lo].n == 0 || blocks[lo].start+blocks[lo].n <= i {
			lo++
		}
		b := blocks[lo]
		s := c.Seeds[b.seed]
		var label string
		mut := func() []byte {
			d, l := fams[b.fam].apply(s.Data, i-b.start)
			label = l
			return d
		}
		d := mut()
		return s.EP, s.Name + " " + label, func() []byte { return d }
	}
	g := &mc.Guarded{
		N:          total,
		Horizon:    20 * time.Second,
		Chunk:      6000,
		AllocBound: func(n int) uint64 { return 64<<20 + 64*uint64(n) },
		Case: func(i int) mc.GuardedCase {
			ep, name, data := find(i)
			return mc.GuardedCase{ID: fmt.Sprintf("ep=%s input=[%s]", ep, name), Run: func() (string, int) {
				b := data()
				out := eps[ep](b)
				// History: the same input presented a second time to the same process (a peer that
				// repeats a hostile message). Whatever the first decode remembered - a size it saw, a
				// pooled buffer it grew - is in place for the second. Quick repeats the inputs with a
				// substituted 32-bit field; thorough repeats every input.
				if repeatAll || strings.Contains(name, "u32") {
					if out2 := eps[ep](append([]byte(nil), b...)); out2 != out {
						out = "first: " + out + " | again: " + out2
					}
				}
				return out, len(b)
			}}
		},
	}
	return g, func(i int) (string, string) {
		ep, name, _ := find(i)
		return ep, fmt.Sprintf("ep=%s input=[%s]", ep, name)
	}
}

func loadCorpus() *corpus {
	f, err := os.Open(os.Getenv("VERIF_C07_CORPUS"))
	if err != nil {
		mc.Fatal("worker: corpus: %v", err)
	}
	defer f.Close()
	c := &corpus{}
	if err := gob.NewDecoder(f).Decode(c); err != nil {
		mc.Fatal("worker: corpus decode: %v", err)
	}
	return c
}

func main() {
	mc.GuardedWorkerMain(func() *mc.Guarded { g, _ := buildGuarded(loadCorpus()); return g })
	r := mc.NewRun("C07")
	defer kmfx.Cleanup()
	r.Rule("E5 + guarded workers: for every (entry point, genuine baseline): every truncation, every offset (quick: every 4th) x byte values {00,01,7f,80,ff}, every offset x 32-bit values {0,1,2^31-1,2^31,2^32-1,2^32-16,2^16,2^24,len,len+1,remaining}; proto field removal of the golden measurement; all byte strings of length <=2 and length 3-4 over {00,01,0a,12,80,ff} on 10 entry points; oracle: no panic, no worker death, no horizon, allocation <= 64 MiB + 64 x input length; non-trivial = distinct (entry point, outcome class)")
	r.Assume("a panic that escapes a repository entry point counts even when it starts inside a third-party decoder (the entry point is what the property quantifies over)")
	c := buildCorpus(r)
	cp := filepath.Join(c.Scratch, "corpus.gob")
	f, err := os.Create(cp)
	if err != nil {
		mc.Fatal("%v", err)
	}
	if err := gob.NewEncoder(f).Encode(c); err != nil {
		mc.Fatal("%v", err)
	}
	f.Close()
	g, describe := buildGuarded(c)
	g.WorkerEnv = []string{"VERIF_C07_CORPUS=" + cp}
	if r.Replaying() {
		// Replay runs the one case in-process (twice).
		for i := 0; i < g.N; i++ {
			if _, id := describe(i); id == r.ReplayID {
				cs := g.Case(i)
				r.Case(id, func() string {
					var out string
					p, v := mc.Guard(func() { out, _ = cs.Run() })
					r.Eval()
					if p {
						r.Violation("panic/replay", id, fmt.Sprintf("panic: %v", v), nil)
						return fmt.Sprintf("panic: %v", v)
					}
					return out
				})
				break
			}
		}
		r.Finish()
	}
	depPanics := 0
	suspects := g.RunParent(r, func(res mc.GuardedResult) {
		ep, id := describe(res.Index)
		r.Eval()
		r.Validated()
		switch {
		case strings.HasPrefix(res.Outcome, "PANIC "):
			// Any panic that escapes a repository entry point is a violation, wherever it started;
			// the site (first repository frame, or the dependency frame) only names the class.
			site := res.Outcome[strings.LastIndex(res.Outcome, " @ ")+3:]
			if strings.HasPrefix(site, "dependency:") {
				depPanics++
			}
			r.Violation("panic/"+ep+"/"+site, id, fmt.Sprintf("%s panicked: %s", ep, res.Outcome), nil)
		case res.Alloc > g.AllocBound(res.InputLen):
			r.Violation("allocation/"+ep, id, fmt.Sprintf("%s allocated %d bytes for a %d-byte input", ep, res.Alloc, res.InputLen), map[string]any{"alloc": res.Alloc, "input_len": res.InputLen})
		}
		cls := ep + " => " + res.Outcome
		if len(cls) > 140 {
			cls = cls[:140]
		}
		if r.State(cls) {
			r.Nontrivial(cls)
			r.Sample(map[string]any{"case": id, "outcome": res.Outcome, "alloc_bytes": res.Alloc, "input_len": res.InputLen})
		}
		r.Outcome(ep)
	})
	for _, s := range suspects {
		ep, id := describe(s.Index)
		r.Violation(s.Why+"/"+ep, id, fmt.Sprintf("%s: worker %s on this input (confirmed alone, 3 times, 5x horizon)", ep, map[string]string{"death": "died (out of memory or fatal error)", "horizon": "did not finish within the horizon"}[s.Why]), nil)
	}
	r.Set("cases", g.N)
	r.Set("seeds", len(c.Seeds))
	r.Set("dependency_panics", depPanics)
	_ = io.Discard
	r.Finish()
}
