package kmfx

import (
	"bytes"
	"context"
	"crypto/rand"
	"crypto/rsa"
	"crypto/sha256"
	"crypto/x509"
	"encoding/hex"
	"encoding/pem"
	"fmt"
	"github.com/google/gce-tcb-verifier/keys/gcpkms"
	"io"
	"math/big"
	"os"
	"path/filepath"
	"sort"
	"sync"
	"sync/atomic"
	"time"
	"verifharness/mc"

	"github.com/google/gce-tcb-verifier/cmd"
	"github.com/google/gce-tcb-verifier/cmd/output"
	"github.com/google/gce-tcb-verifier/endorse"
	"github.com/google/gce-tcb-verifier/keys"
	cpb "github.com/google/gce-tcb-verifier/proto/certificates"
	epb "github.com/google/gce-tcb-verifier/proto/endorsement"
	"github.com/google/gce-tcb-verifier/rotate"
	"github.com/google/gce-tcb-verifier/sign/gcsca"
	"github.com/google/gce-tcb-verifier/sign/memca"
	"github.com/google/gce-tcb-verifier/sign/nonprod"
	sops "github.com/google/gce-tcb-verifier/sign/ops"
	styp "github.com/google/gce-tcb-verifier/sign/types"
	"github.com/google/gce-tcb-verifier/storage/local"
	"github.com/google/gce-tcb-verifier/storage/storagei"
	"github.com/google/gce-tcb-verifier/testing/nonprod/localca"
	"github.com/google/gce-tcb-verifier/testing/nonprod/localkm"
	"github.com/google/gce-tcb-verifier/testing/nonprod/localnonvcs"
	"github.com/google/gce-tcb-verifier/testing/nonprod/memkm"
	"google.golang.org/protobuf/encoding/prototext"
)

// Kinds of worlds (key manager + certificate authority combinations shipped in the repository).
const (
	MemMem     = "memkm+memca"
	MemGcs     = "memkm+gcsca"
	LocalLocal = "localkm+localca"
	// Cloud KMS key manager (the repository's gcpkms.Manager and Signer) over the model service of
	// kms.go, with the in-memory and the storage-backed authority. Library-level only (no CLI).
	GcpMem   = "gcpkms+memca"
	GcpGcs   = "gcpkms+gcsca"
	Bucket   = "bkt"
	RootPath = "root.crt"
	CertDir  = "certs"
)

// Kinds lists all world kinds.
var Kinds = []string{MemMem, MemGcs, LocalLocal}

// World is one key-management universe.
type World struct {
	Kind   string
	Signer *nonprod.Signer // memkm key material ("the key service"); nil for on-disk keys
	MemCA  *memca.CertificateAuthority
	Store  *Store // MemGcs
	Dir    string // LocalLocal: contains keys/ and buckets/
	KMS    *KMS   // GcpMem, GcpGcs
	// WrapStorage lets a harness decorate the storage client handed to gcsca (MemGcs only).
	WrapStorage func(storagei.Client) storagei.Client
	// OneProcess keeps the key-manager and certificate-authority objects alive across commands
	// (an embedding program, or several commands run by one process) instead of building new ones
	// per command as the one-process-per-command CLI does. Whatever those objects cache is then
	// part of the state.
	OneProcess bool
	km, ca     cmd.CommandComponent
}

var scratchSeq int64

// ScratchRoot is where on-disk worlds live; removed by Cleanup.
func ScratchRoot() string {
	scratchOnce.Do(func() {
		// one directory per process (workers of one check share VERIF_SCRATCH, set by ./check, which
		// also removes it when the check ends however it ends)
		base := os.Getenv("VERIF_SCRATCH")
		if base == "" {
			base = "/var/tmp"
		}
		scratchRoot = filepath.Join(base, fmt.Sprintf("verif-%d", os.Getpid()))
		mc.AtExit(Cleanup)
	})
	os.MkdirAll(scratchRoot, 0o755)
	return scratchRoot
}

var (
	scratchOnce sync.Once
	scratchRoot string
)

// Cleanup removes the scratch root.
func Cleanup() { os.RemoveAll(ScratchRoot()) }

func newDir() string {
	d := filepath.Join(ScratchRoot(), fmt.Sprintf("w%d", atomic.AddInt64(&scratchSeq, 1)))
	os.MkdirAll(filepath.Join(d, "keys"), 0o755)
	os.MkdirAll(filepath.Join(d, "buckets"), 0o755)
	return d
}

// NewWorld creates an empty world.
func NewWorld(kind string) *World {
	w := &World{Kind: kind}
	switch kind {
	case MemMem:
		w.Signer = &nonprod.Signer{Rand: rand.Reader, Keys: map[string]*rsa.PrivateKey{}}
		w.MemCA = memca.Create()
	case MemGcs:
		w.Signer = &nonprod.Signer{Rand: rand.Reader, Keys: map[string]*rsa.PrivateKey{}}
		w.Store = NewStore()
	case LocalLocal:
		w.Dir = newDir()
	case GcpMem:
		w.KMS = NewKMS()
		w.MemCA = memca.Create()
	case GcpGcs:
		w.KMS = NewKMS()
		w.Store = NewStore()
	default:
		panic("unknown world kind " + kind)
	}
	return w
}

func copyTree(src, dst string) error {
	return filepath.Walk(src, func(p string, info os.FileInfo, err error) error {
		if err != nil {
			return err
		}
		rel, _ := filepath.Rel(src, p)
		t := filepath.Join(dst, rel)
		if info.IsDir() {
			return os.MkdirAll(t, 0o755)
		}
		b, err := os.ReadFile(p)
		if err != nil {
			return err
		}
		return os.WriteFile(t, b, info.Mode())
	})
}

// Clone copies the world (key pointers are shared: RSA keys are immutable).
func (w *World) Clone() *World {
	c := &World{Kind: w.Kind}
	if w.Signer != nil {
		c.Signer = &nonprod.Signer{Rand: rand.Reader, Keys: map[string]*rsa.PrivateKey{}}
		for k, v := range w.Signer.Keys {
			c.Signer.Keys[k] = v
		}
	}
	if w.MemCA != nil {
		c.MemCA = memca.Create()
		for k, v := range w.MemCA.Certs {
			c.MemCA.Certs[k] = v
		}
		c.MemCA.RootName, c.MemCA.PrimarySigningKey = w.MemCA.RootName, w.MemCA.PrimarySigningKey
	}
	if w.Store != nil {
		c.Store = w.Store.Clone()
	}
	if w.KMS != nil {
		c.KMS = w.KMS.Clone()
	}
	if w.Dir != "" {
		c.Dir = newDir()
		if err := copyTree(w.Dir, c.Dir); err != nil {
			panic(err)
		}
	}
	return c
}

// Drop removes on-disk state of a world that is no longer needed.
func (w *World) Drop() {
	if w.Dir != "" {
		os.RemoveAll(w.Dir)
	}
}

// components returns fresh component objects ("a new process") over the world's durable state.
func (w *World) components() (km cmd.CommandComponent, ca cmd.CommandComponent) {
	if w.OneProcess {
		if w.km == nil {
			w.km, w.ca = w.build()
		}
		return w.km, w.ca
	}
	return w.build()
}

// Restart forgets the long-lived component objects of a one-process world: the process ended (or
// crashed) and the next command runs in a new one.
func (w *World) Restart() { w.km, w.ca = nil, nil }

func (w *World) build() (km cmd.CommandComponent, ca cmd.CommandComponent) {
	gcp := func() *gcpkms.Manager {
		return &gcpkms.Manager{Project: "p", Location: "l", KeyRingID: "r", KeyClient: w.KMS, IAMClient: iam{}}
	}
	switch w.Kind {
	case GcpMem:
		return gcp(), w.MemCA
	case GcpGcs:
		var st storagei.Client = w.Store
		if w.WrapStorage != nil {
			st = w.WrapStorage(st)
		}
		return gcp(), &gcsca.CertificateAuthority{Storage: st, PrivateBucket: Bucket, RootPath: RootPath, SigningCertDirInGCS: CertDir}
	case MemMem:
		return &memkm.T{Signer: w.Signer}, w.MemCA
	case MemGcs:
		var st storagei.Client = w.Store
		if w.WrapStorage != nil {
			st = w.WrapStorage(st)
		}
		return &memkm.T{Signer: w.Signer},
			&gcsca.CertificateAuthority{Storage: st, PrivateBucket: Bucket, RootPath: RootPath, SigningCertDirInGCS: CertDir}
	default:
		return &localkm.T{T: memkm.T{Signer: &nonprod.Signer{Rand: rand.Reader}}, KeyDir: filepath.Join(w.Dir, "keys")},
			&localca.T{CA: &gcsca.CertificateAuthority{Storage: &local.StorageClient{Root: filepath.Join(w.Dir, "buckets")},
				PrivateBucket: Bucket, RootPath: RootPath, SigningCertDirInGCS: CertDir}}
	}
}

// Flags are the global output flags of a command.
type Flags struct{ Overwrite, KeepGoing bool }

// Session is an initialised context for library-level operations ("one process").
type Session struct {
	Ctx  context.Context
	Keys *keys.Context
}

// Open builds a session; extra contexts (bootstrap / signing key / wipeout) are added by pre
// before the components' InitContext runs, as the CLI does.
func (w *World) Open(f Flags, pre func(context.Context) context.Context) (*Session, error) {
	kc := &keys.Context{Random: rand.Reader}
	ctx := output.NewContext(context.Background(), &output.Options{Quiet: true, Overwrite: f.Overwrite, KeepGoing: f.KeepGoing})
	ctx = keys.NewContext(ctx, kc)
	if pre != nil {
		ctx = pre(ctx)
	}
	km, ca := w.components()
	ctx, err := cmd.ComposeInitContext(ctx, km, ca)
	if err != nil {
		return nil, err
	}
	return &Session{Ctx: ctx, Keys: kc}, nil
}

// BootstrapOpts configures a bootstrap.
type BootstrapOpts struct {
	Now                    time.Time
	RootCN, SignCN         string
	RootSerial, SignSerial int64
	// RootSerialBig and SignSerialBig, when set, take precedence (serials beyond 64 bits).
	RootSerialBig, SignSerialBig *big.Int
}

// DefaultBootstrap returns the CLI defaults at time now.
func DefaultBootstrap(now time.Time) BootstrapOpts {
	return BootstrapOpts{Now: now, RootCN: styp.RootCommonName, SignCN: styp.UEFISigningCommonName, RootSerial: 1, SignSerial: 2}
}

// Bootstrap runs rotate.Bootstrap; wrap may decorate the keys.Context first.
func (w *World) Bootstrap(o BootstrapOpts, f Flags, wrap func(*Session)) error {
	s, err := w.Open(f, func(ctx context.Context) context.Context {
		if w.KMS != nil {
			ctx = gcpkms.NewBootstrapContext(ctx, &gcpkms.BootstrapContext{RootKeyID: "root-key", SigningKeyID: "signing-key", SigningKeyOperators: []string{"operator@example.invalid"}})
		}
		rs, ss := big.NewInt(o.RootSerial), big.NewInt(o.SignSerial)
		if o.RootSerialBig != nil {
			rs = new(big.Int).Set(o.RootSerialBig)
		}
		if o.SignSerialBig != nil {
			ss = new(big.Int).Set(o.SignSerialBig)
		}
		return rotate.NewBootstrapContext(ctx, &rotate.BootstrapContext{RootKeyCommonName: o.RootCN, SigningKeyCommonName: o.SignCN,
			RootKeySerial: rs, SigningKeySerial: ss, Now: o.Now})
	})
	if err != nil {
		return err
	}
	if wrap != nil {
		wrap(s)
	}
	return rotate.Bootstrap(s.Ctx)
}

// RotateOpts configures a rotation (Serial 0 = default: current subject serial + 1).
type RotateOpts struct {
	Now    time.Time
	CN     string
	Serial int64
	// SerialBig, when set, is the override (serials beyond 64 bits).
	SerialBig *big.Int
}

// Rotate runs rotate.Key the way the CLI's rotate command does.
func (w *World) Rotate(o RotateOpts, f Flags, wrap func(*Session)) (string, error) {
	skc := &rotate.SigningKeyContext{SigningKeyCommonName: o.CN, SigningKeySerial: big.NewInt(o.Serial), Now: o.Now}
	if skc.SigningKeyCommonName == "" {
		skc.SigningKeyCommonName = styp.UEFISigningCommonName
	}
	s, err := w.Open(f, func(ctx context.Context) context.Context {
		if w.KMS != nil {
			ctx = gcpkms.NewSigningKeyContext(ctx, &gcpkms.SigningKeyContext{SigningKeyID: "signing-key"})
		}
		return rotate.NewSigningKeyContext(ctx, skc)
	})
	if err != nil {
		return "", err
	}
	if wrap != nil {
		wrap(s)
	}
	if o.SerialBig != nil {
		skc.SigningKeySerial = new(big.Int).Set(o.SerialBig)
	} else if o.Serial == 0 {
		skc.SigningKeySerial, err = sops.NextSigningKeySerial(s.Ctx)
		if err != nil {
			return "", err
		}
	}
	return rotate.Key(s.Ctx)
}

// Wipeout runs rotate.Wipeout.
func (w *World) Wipeout(ca, ks bool, f Flags) error {
	s, err := w.Open(f, func(ctx context.Context) context.Context {
		return rotate.NewWipeoutContext(ctx, &rotate.WipeoutContext{CA: ca, Keys: ks})
	})
	if err != nil {
		return err
	}
	return rotate.Wipeout(s.Ctx)
}

// SignGolden signs doc with the recorded primary key through endorse.SignDoc in a fresh session.
func (w *World) SignGolden(doc *epb.VMGoldenMeasurement, ts time.Time) (*epb.VMLaunchEndorsement, error) {
	s, err := w.Open(Flags{}, nil)
	if err != nil {
		return nil, err
	}
	return endorse.SignDoc(endorse.NewContext(s.Ctx, &endorse.Context{Timestamp: ts}), doc)
}

// baseArgs are the flags every CLI invocation needs for this world.
func (w *World) baseArgs() []string {
	switch w.Kind {
	case MemMem:
		return nil
	case MemGcs:
		return []string{"--bucket=" + Bucket, "--cert_dir=" + CertDir, "--root_path=" + RootPath}
	default:
		return []string{"--bucket=" + Bucket, "--cert_dir=" + CertDir, "--root_path=" + RootPath,
			"--key_dir=" + filepath.Join(w.Dir, "keys"), "--bucket_root=" + filepath.Join(w.Dir, "buckets")}
	}
}

// CLI runs one command of the signing tool (cmd.MakeApp) on a new app, as one process would.
func (w *World) CLI(args ...string) (err error) {
	km, ca := w.components()
	app := &cmd.AppComponents{
		Global:          cmd.Compose(km, ca),
		Endorse:         &localnonvcs.T{},
		Bootstrap:       &cmd.PartialComponent{},
		SignatureRandom: rand.Reader,
	}
	root := cmd.MakeApp(context.Background(), app)
	root.SetArgs(append(append([]string{}, args...), append(w.baseArgs(), "--quiet")...))
	root.SetOut(io.Discard)
	root.SetErr(io.Discard)
	root.SilenceErrors = true
	root.SilenceUsage = true
	defer func() {
		if x := recover(); x != nil {
			err = fmt.Errorf("panic: %v", x)
		}
	}()
	return root.Execute()
}

// State is what can be read back from a world without trusting cached objects.
type State struct {
	LoadErr     string
	RootName    string
	PrimaryName string
	Entries     map[string]string            // key version -> object path ("" for memca)
	Certs       map[string]*x509.Certificate // parsed certificate per listed key version
	CertErr     map[string]string
	Root        *x509.Certificate
	RootErr     string
	Live        map[string]*rsa.PublicKey // key versions whose private key is usable
	Objects     map[string]string         // object name -> sha256 hex (storage-backed authorities)
}

func (w *World) liveKeys() map[string]*rsa.PublicKey {
	out := map[string]*rsa.PublicKey{}
	if w.KMS != nil {
		for _, n := range w.KMS.Live() {
			if k := w.KMS.Signer.Keys[n]; k != nil {
				out[n] = &k.PublicKey
			}
		}
		return out
	}
	if w.Signer != nil {
		for k, v := range w.Signer.Keys {
			out[k] = &v.PublicKey
		}
		return out
	}
	ents, _ := os.ReadDir(filepath.Join(w.Dir, "keys"))
	for _, e := range ents {
		n := e.Name()
		if filepath.Ext(n) != ".pem" {
			continue
		}
		b, err := os.ReadFile(filepath.Join(w.Dir, "keys", n))
		if err != nil {
			continue
		}
		blk, _ := pem.Decode(b)
		if blk == nil {
			continue
		}
		k, err := x509.ParsePKCS8PrivateKey(blk.Bytes)
		if err != nil {
			continue
		}
		if rk, ok := k.(*rsa.PrivateKey); ok {
			out[n[:len(n)-4]] = &rk.PublicKey
		}
	}
	return out
}

func (w *World) readObject(name string) ([]byte, bool) {
	if w.Store != nil {
		return w.Store.Get(Bucket, name)
	}
	b, err := os.ReadFile(filepath.Join(w.Dir, "buckets", Bucket, name))
	return b, err == nil
}

func (w *World) objectNames() []string {
	if w.Store != nil {
		return w.Store.Names(Bucket)
	}
	var out []string
	root := filepath.Join(w.Dir, "buckets", Bucket)
	filepath.Walk(root, func(p string, info os.FileInfo, err error) error {
		if err == nil && !info.IsDir() {
			rel, _ := filepath.Rel(root, p)
			out = append(out, rel)
		}
		return nil
	})
	sort.Strings(out)
	return out
}

// Inspect reads the durable state back.
func (w *World) Inspect() *State {
	st := &State{Entries: map[string]string{}, Certs: map[string]*x509.Certificate{}, CertErr: map[string]string{}, Objects: map[string]string{}, Live: w.liveKeys()}
	if w.Kind == MemMem || w.Kind == GcpMem {
		st.RootName, st.PrimaryName = w.MemCA.RootName, w.MemCA.PrimarySigningKey
		for k, c := range w.MemCA.Certs {
			if k == w.MemCA.RootName {
				st.Root = c
				continue
			}
			st.Entries[k] = ""
			st.Certs[k] = c
		}
		return st
	}
	for _, n := range w.objectNames() {
		b, _ := w.readObject(n)
		h := sha256.Sum256(b)
		st.Objects[n] = hex.EncodeToString(h[:])
	}
	if b, ok := w.readObject(gcsca.ManifestObjectName); ok {
		m := &cpb.GCECertificateManifest{}
		if err := prototext.Unmarshal(b, m); err != nil {
			st.LoadErr = "manifest does not parse: " + err.Error()
			return st
		}
		st.RootName, st.PrimaryName = m.GetPrimaryRootKeyVersionName(), m.GetPrimarySigningKeyVersionName()
		for _, e := range m.Entries {
			st.Entries[e.KeyVersionName] = e.ObjectPath
			cb, ok := w.readObject(e.ObjectPath)
			if !ok {
				st.CertErr[e.KeyVersionName] = "object " + e.ObjectPath + " missing"
				continue
			}
			c, err := x509.ParseCertificate(cb)
			if err != nil {
				st.CertErr[e.KeyVersionName] = "object " + e.ObjectPath + " does not parse: " + err.Error()
				continue
			}
			st.Certs[e.KeyVersionName] = c
		}
	}
	if b, ok := w.readObject(RootPath); ok {
		blk, rest := pem.Decode(b)
		if blk == nil || len(bytes.TrimSpace(rest)) != 0 {
			st.RootErr = "root object is not a single PEM block"
		} else if c, err := x509.ParseCertificate(blk.Bytes); err != nil {
			st.RootErr = err.Error()
		} else {
			st.Root = c
		}
	}
	return st
}

// Canon renders the property-relevant projection of the state (no key bits, no signatures).
func (st *State) Canon() string {
	var b bytes.Buffer
	fmt.Fprintf(&b, "err=%q root=%s primary=%s rooterr=%q\n", st.LoadErr, st.RootName, st.PrimaryName, st.RootErr)
	if st.Root != nil {
		fmt.Fprintf(&b, "rootcert: %s\n", certCanon(st.Root, st.Root))
	}
	var ks []string
	for k := range st.Entries {
		ks = append(ks, k)
	}
	sort.Strings(ks)
	for _, k := range ks {
		fmt.Fprintf(&b, "entry %s -> %s: ", k, st.Entries[k])
		if c := st.Certs[k]; c != nil {
			fmt.Fprintf(&b, "%s\n", certCanon(c, st.Root))
		} else {
			fmt.Fprintf(&b, "ERR %s\n", st.CertErr[k])
		}
	}
	var ls []string
	for k := range st.Live {
		ls = append(ls, k)
	}
	sort.Strings(ls)
	fmt.Fprintf(&b, "live=%v\n", ls)
	var os_ []string
	for k := range st.Objects {
		os_ = append(os_, k)
	}
	sort.Strings(os_)
	fmt.Fprintf(&b, "objects=%v\n", os_)
	return b.String()
}

func certCanon(c, root *x509.Certificate) string {
	underRoot := false
	if root != nil {
		underRoot = c.CheckSignatureFrom(root) == nil
	}
	return fmt.Sprintf("cn=%s subjserial=%s certserial=%s ca=%v usage=%d nb=%s na=%s alg=%v underroot=%v",
		c.Subject.CommonName, c.Subject.SerialNumber, c.SerialNumber, c.IsCA, c.KeyUsage,
		c.NotBefore.UTC().Format("2006-01-02T15:04:05"), c.NotAfter.UTC().Format("2006-01-02T15:04:05"), c.SignatureAlgorithm, underRoot)
}
