package kmfx

// A small in-process Cloud KMS with real key material, for worlds whose key manager is the
// repository's gcpkms.Manager. It implements the client calls that manager and its signer make;
// every other method of the (embedded, nil) client interface panics loudly if it is ever reached.
// The state is plain data, so a world built on it can be cloned like the others. Paging, polling
// and checksum behaviour of the service are explored by the C20 harness with its own model; this one
// always answers in full pages and completes key generation at once.

import (
	"context"
	"crypto/rand"
	"crypto/rsa"
	"fmt"
	"hash/crc32"
	"io"
	"sort"
	"strconv"
	"strings"
	"sync"

	iampb "cloud.google.com/go/iam/apiv1/iampb"
	kmspb "cloud.google.com/go/kms/apiv1/kmspb"
	"github.com/google/gce-tcb-verifier/sign/nonprod"
	styp "github.com/google/gce-tcb-verifier/sign/types"
	"google.golang.org/grpc"
	"google.golang.org/grpc/codes"
	"google.golang.org/grpc/status"
	"google.golang.org/protobuf/types/known/wrapperspb"
)

type kmsVersion struct {
	Name  string
	State kmspb.CryptoKeyVersion_CryptoKeyVersionState
}

// KMS is the service state: key rings, keys in creation order, versions per key, key material.
type KMS struct {
	kmspb.KeyManagementServiceClient // nil: unimplemented calls fail loudly
	Signer                           *nonprod.Signer
	Rings                            map[string]bool
	KeyOrder                         []string
	Versions                         map[string][]*kmsVersion
	Templates                        map[string]*kmspb.CryptoKeyVersionTemplate
	// Hook, if set, runs before every call and may answer it with an error (fault injection).
	Hook func(call, name string) error
	// Created counts the key versions this service (and the service it was cloned from) has made;
	// it indexes the process-wide pool of key material below.
	Created int
}

// The service's key material comes from a process-wide pool of real 2048-bit RSA keys: the n-th key
// version a service creates gets the n-th key of the pool, so keys are distinct within one world and
// its clones while thousands of explored worlds share the cost of generating them. (Key generation
// happens inside the real service, not in the repository's code.)
//
// Opt-in (PoolKMSKeys): a harness that compares worlds with one another (a foreign authority, say)
// must not use it, since the n-th key of every world is then the same key.
var PoolKMSKeys bool

// WarmKeyPool generates the first n pool keys in parallel.
func WarmKeyPool(n int) {
	var wg sync.WaitGroup
	for i := 0; i < n && i < PoolSize; i++ {
		wg.Add(1)
		go func(i int) { defer wg.Done(); pooledKey(i) }(i)
	}
	wg.Wait()
}

var keyPool struct {
	sync.Mutex
	keys []*poolKey
}

type poolKey struct {
	once sync.Once
	key  *rsa.PrivateKey
	err  error
}

// PoolSize bounds the pool: version n gets key n mod PoolSize, so a history longer than that sees
// key material again (never two live versions with one key as long as fewer than PoolSize versions
// are alive at once).
const PoolSize = 65

func pooledKey(i int) (*rsa.PrivateKey, error) {
	if i >= PoolSize {
		i = 1 + (i-1)%(PoolSize-1) // key 0 (a world's first key, its root) is not handed out again
	}
	keyPool.Lock()
	for len(keyPool.keys) <= i {
		keyPool.keys = append(keyPool.keys, &poolKey{})
	}
	pk := keyPool.keys[i]
	keyPool.Unlock()
	pk.once.Do(func() { pk.key, pk.err = rsa.GenerateKey(randReader(), 2048) })
	return pk.key, pk.err
}

// NewKMS returns an empty service.
func NewKMS() *KMS {
	return &KMS{Signer: &nonprod.Signer{Rand: randReader(), Keys: map[string]*rsa.PrivateKey{}}, Rings: map[string]bool{},
		Versions: map[string][]*kmsVersion{}, Templates: map[string]*kmspb.CryptoKeyVersionTemplate{}}
}

// Clone copies the service state (key material is shared by reference; keys are immutable).
func (k *KMS) Clone() *KMS {
	c := NewKMS()
	for n, v := range k.Signer.Keys {
		c.Signer.Keys[n] = v
	}
	for r := range k.Rings {
		c.Rings[r] = true
	}
	c.KeyOrder = append([]string(nil), k.KeyOrder...)
	c.Created = k.Created
	for n, vs := range k.Versions {
		for _, v := range vs {
			c.Versions[n] = append(c.Versions[n], &kmsVersion{v.Name, v.State})
		}
	}
	for n, t := range k.Templates {
		c.Templates[n] = t
	}
	return c
}

func (k *KMS) enter(call, name string) error {
	if k.Hook != nil {
		return k.Hook(call, name)
	}
	return nil
}

var crcTable = crc32.MakeTable(crc32.Castagnoli)

func (k *KMS) find(name string) *kmsVersion {
	i := strings.LastIndex(name, "/cryptoKeyVersions/")
	if i < 0 {
		return nil
	}
	for _, v := range k.Versions[name[:i]] {
		if v.Name == name {
			return v
		}
	}
	return nil
}

func (k *KMS) newVersion(key string) (*kmspb.CryptoKeyVersion, error) {
	max := 0
	for _, v := range k.Versions[key] {
		n, _ := strconv.Atoi(v.Name[strings.LastIndex(v.Name, "/")+1:])
		if n > max {
			max = n
		}
	}
	name := fmt.Sprintf("%s/cryptoKeyVersions/%d", key, max+1)
	if PoolKMSKeys {
		priv, err := pooledKey(k.Created)
		if err != nil {
			return nil, err
		}
		k.Signer.Keys[name] = priv
	} else {
		var err error
		if k.Templates[key].GetProtectionLevel() == kmspb.ProtectionLevel_HSM {
			_, err = k.Signer.GenerateRootKey(name)
		} else {
			_, err = k.Signer.GenerateSigningKey(name)
		}
		if err != nil {
			return nil, err
		}
	}
	k.Created++
	k.Versions[key] = append(k.Versions[key], &kmsVersion{name, kmspb.CryptoKeyVersion_ENABLED})
	return &kmspb.CryptoKeyVersion{Name: name, State: kmspb.CryptoKeyVersion_ENABLED, Algorithm: k.Templates[key].GetAlgorithm(), ProtectionLevel: k.Templates[key].GetProtectionLevel()}, nil
}

func (k *KMS) CreateKeyRing(_ context.Context, req *kmspb.CreateKeyRingRequest, _ ...grpc.CallOption) (*kmspb.KeyRing, error) {
	name := req.GetParent() + "/keyRings/" + req.GetKeyRingId()
	if err := k.enter("CreateKeyRing", name); err != nil {
		return nil, err
	}
	if k.Rings[name] {
		return nil, status.Errorf(codes.AlreadyExists, "key ring %s already exists", name)
	}
	k.Rings[name] = true
	return &kmspb.KeyRing{Name: name}, nil
}

func (k *KMS) CreateCryptoKey(_ context.Context, req *kmspb.CreateCryptoKeyRequest, _ ...grpc.CallOption) (*kmspb.CryptoKey, error) {
	name := req.GetParent() + "/cryptoKeys/" + req.GetCryptoKeyId()
	if err := k.enter("CreateCryptoKey", name); err != nil {
		return nil, err
	}
	if _, ok := k.Templates[name]; ok {
		return nil, status.Errorf(codes.AlreadyExists, "crypto key %s already exists", name)
	}
	if req.GetCryptoKey().GetPurpose() != kmspb.CryptoKey_ASYMMETRIC_SIGN || req.GetCryptoKey().GetVersionTemplate() == nil {
		return nil, status.Errorf(codes.InvalidArgument, "unsupported key request")
	}
	k.Templates[name] = req.GetCryptoKey().GetVersionTemplate()
	k.KeyOrder = append(k.KeyOrder, name)
	if !req.GetSkipInitialVersionCreation() {
		if _, err := k.newVersion(name); err != nil {
			return nil, err
		}
	}
	out := &kmspb.CryptoKey{Name: name, Purpose: kmspb.CryptoKey_ASYMMETRIC_SIGN, VersionTemplate: k.Templates[name]}
	return out, nil
}

func (k *KMS) CreateCryptoKeyVersion(_ context.Context, req *kmspb.CreateCryptoKeyVersionRequest, _ ...grpc.CallOption) (*kmspb.CryptoKeyVersion, error) {
	if err := k.enter("CreateCryptoKeyVersion", req.GetParent()); err != nil {
		return nil, err
	}
	if _, ok := k.Templates[req.GetParent()]; !ok {
		return nil, status.Errorf(codes.NotFound, "no crypto key %s", req.GetParent())
	}
	return k.newVersion(req.GetParent())
}

func (k *KMS) GetCryptoKeyVersion(_ context.Context, req *kmspb.GetCryptoKeyVersionRequest, _ ...grpc.CallOption) (*kmspb.CryptoKeyVersion, error) {
	if err := k.enter("GetCryptoKeyVersion", req.GetName()); err != nil {
		return nil, err
	}
	v := k.find(req.GetName())
	if v == nil {
		return nil, status.Errorf(codes.NotFound, "no key version %s", req.GetName())
	}
	return &kmspb.CryptoKeyVersion{Name: v.Name, State: v.State}, nil
}

func (k *KMS) ListCryptoKeys(_ context.Context, req *kmspb.ListCryptoKeysRequest, _ ...grpc.CallOption) (*kmspb.ListCryptoKeysResponse, error) {
	if err := k.enter("ListCryptoKeys", req.GetParent()); err != nil {
		return nil, err
	}
	resp := &kmspb.ListCryptoKeysResponse{}
	for _, n := range k.KeyOrder {
		if strings.HasPrefix(n, req.GetParent()+"/cryptoKeys/") {
			resp.CryptoKeys = append(resp.CryptoKeys, &kmspb.CryptoKey{Name: n})
		}
	}
	resp.TotalSize = int32(len(resp.CryptoKeys))
	return resp, nil
}

func (k *KMS) ListCryptoKeyVersions(_ context.Context, req *kmspb.ListCryptoKeyVersionsRequest, _ ...grpc.CallOption) (*kmspb.ListCryptoKeyVersionsResponse, error) {
	if err := k.enter("ListCryptoKeyVersions", req.GetParent()); err != nil {
		return nil, err
	}
	if _, ok := k.Templates[req.GetParent()]; !ok {
		return nil, status.Errorf(codes.NotFound, "no crypto key %s", req.GetParent())
	}
	resp := &kmspb.ListCryptoKeyVersionsResponse{}
	for _, v := range k.Versions[req.GetParent()] {
		resp.CryptoKeyVersions = append(resp.CryptoKeyVersions, &kmspb.CryptoKeyVersion{Name: v.Name, State: v.State})
	}
	resp.TotalSize = int32(len(resp.CryptoKeyVersions))
	return resp, nil
}

func (k *KMS) DestroyCryptoKeyVersion(_ context.Context, req *kmspb.DestroyCryptoKeyVersionRequest, _ ...grpc.CallOption) (*kmspb.CryptoKeyVersion, error) {
	if err := k.enter("DestroyCryptoKeyVersion", req.GetName()); err != nil {
		return nil, err
	}
	v := k.find(req.GetName())
	if v == nil {
		return nil, status.Errorf(codes.NotFound, "no key version %s", req.GetName())
	}
	v.State = kmspb.CryptoKeyVersion_DESTROYED
	delete(k.Signer.Keys, req.GetName())
	return &kmspb.CryptoKeyVersion{Name: v.Name, State: v.State}, nil
}

func (k *KMS) GetPublicKey(ctx context.Context, req *kmspb.GetPublicKeyRequest, _ ...grpc.CallOption) (*kmspb.PublicKey, error) {
	if err := k.enter("GetPublicKey", req.GetName()); err != nil {
		return nil, err
	}
	if v := k.find(req.GetName()); v == nil || v.State != kmspb.CryptoKeyVersion_ENABLED {
		return nil, status.Errorf(codes.FailedPrecondition, "key version %s is not enabled", req.GetName())
	}
	pem, err := k.Signer.PublicKey(ctx, req.GetName())
	if err != nil {
		return nil, err
	}
	return &kmspb.PublicKey{Name: req.GetName(), Pem: string(pem), PemCrc32C: wrapperspb.Int64(int64(crc32.Checksum(pem, crcTable))), Algorithm: kmspb.CryptoKeyVersion_RSA_SIGN_PSS_4096_SHA256}, nil
}

func (k *KMS) AsymmetricSign(ctx context.Context, req *kmspb.AsymmetricSignRequest, _ ...grpc.CallOption) (*kmspb.AsymmetricSignResponse, error) {
	if err := k.enter("AsymmetricSign", req.GetName()); err != nil {
		return nil, err
	}
	if v := k.find(req.GetName()); v == nil || v.State != kmspb.CryptoKeyVersion_ENABLED {
		return nil, status.Errorf(codes.FailedPrecondition, "key version %s is not enabled", req.GetName())
	}
	d := req.GetDigest().GetSha256()
	if d == nil {
		return nil, status.Errorf(codes.InvalidArgument, "unsupported digest")
	}
	out, err := k.Signer.Sign(ctx, req.GetName(), styp.Digest{SHA256: d}, nonprod.DefaultOpts())
	if err != nil {
		return nil, err
	}
	return &kmspb.AsymmetricSignResponse{Signature: out, SignatureCrc32C: wrapperspb.Int64(int64(crc32.Checksum(out, crcTable))),
		VerifiedDigestCrc32C: req.GetDigestCrc32C() != nil && req.GetDigestCrc32C().GetValue() == int64(crc32.Checksum(d, crcTable)),
		VerifiedDataCrc32C:   true, Name: req.GetName()}, nil
}

// Live returns the names of the ENABLED versions, sorted.
func (k *KMS) Live() []string {
	var out []string
	for _, vs := range k.Versions {
		for _, v := range vs {
			if v.State == kmspb.CryptoKeyVersion_ENABLED {
				out = append(out, v.Name)
			}
		}
	}
	sort.Strings(out)
	return out
}

// iam answers the policy calls the manager makes when it creates keys.
type iam struct{ iampb.IAMPolicyClient }

func (iam) SetIamPolicy(_ context.Context, in *iampb.SetIamPolicyRequest, _ ...grpc.CallOption) (*iampb.Policy, error) {
	return in.GetPolicy(), nil
}

func (iam) GetIamPolicy(_ context.Context, _ *iampb.GetIamPolicyRequest, _ ...grpc.CallOption) (*iampb.Policy, error) {
	return &iampb.Policy{}, nil
}

func randReader() io.Reader { return rand.Reader }
