package kmfx

import (
	"testing"
	"time"
)

// Smoke test of the gcpkms worlds: bootstrap, rotate, read back, clone.
func TestGcpWorlds(t *testing.T) {
	defer Cleanup()
	t0 := time.Date(2025, 3, 1, 12, 0, 0, 0, time.UTC)
	for _, kind := range []string{GcpMem, GcpGcs} {
		w := NewWorld(kind)
		if err := w.Bootstrap(DefaultBootstrap(t0), Flags{}, nil); err != nil {
			t.Fatalf("%s bootstrap: %v", kind, err)
		}
		st := w.Inspect()
		if st.Root == nil || st.PrimaryName == "" || st.Certs[st.PrimaryName] == nil || st.Live[st.PrimaryName] == nil {
			t.Fatalf("%s after bootstrap: %s", kind, st.Canon())
		}
		c := w.Clone()
		kv, err := c.Rotate(RotateOpts{Now: t0.Add(24 * time.Hour)}, Flags{}, nil)
		if err != nil {
			t.Fatalf("%s rotate: %v", kind, err)
		}
		st2 := c.Inspect()
		if st2.PrimaryName != kv || st2.Live[st.PrimaryName] != nil || st2.Live[kv] == nil {
			t.Fatalf("%s after rotate: primary %q returned %q live %v", kind, st2.PrimaryName, kv, st2.Live)
		}
		if w.Inspect().PrimaryName != st.PrimaryName {
			t.Fatalf("%s: rotation of the clone changed the original", kind)
		}
	}
}
