// Package kmfx holds key-management fixtures: an in-memory object store with a write log and
// fault/crash hooks, "worlds" (key manager + certificate authority combinations shipped in the
// repository) that can be cloned, driven through the library or the real CLI, and inspected.
package kmfx

import (
	"bytes"
	"context"
	"io"
	"os"
	"sort"
	"strings"
	"sync"
)

// WriteRec is one committed object write.
type WriteRec struct {
	Bucket, Object string
	Data           []byte
}

// Store is an in-memory storagei.Client.
type Store struct {
	mu      sync.Mutex
	Objects map[string][]byte // "bucket/object"
	Buckets map[string]bool
	Log     []WriteRec
	// Pre is consulted before each operation; a non-nil error is returned to the caller instead of
	// performing it. Post runs after the operation took effect (a crash hook may panic there).
	Pre  func(op, bucket, object string) error
	Post func(op, bucket, object string)
}

// NewStore returns an empty store.
func NewStore() *Store { return &Store{Objects: map[string][]byte{}, Buckets: map[string]bool{}} }

// Clone copies contents (not hooks, not the log).
func (s *Store) Clone() *Store {
	c := NewStore()
	for k, v := range s.Objects {
		c.Objects[k] = append([]byte(nil), v...)
	}
	for k := range s.Buckets {
		c.Buckets[k] = true
	}
	return c
}

func (s *Store) pre(op, b, o string) error {
	if s.Pre != nil {
		return s.Pre(op, b, o)
	}
	return nil
}

func (s *Store) post(op, b, o string) {
	if s.Post != nil {
		s.Post(op, b, o)
	}
}

// Reader implements storagei.Client.
func (s *Store) Reader(_ context.Context, bucket, object string) (io.ReadCloser, error) {
	if err := s.pre("Reader", bucket, object); err != nil {
		return nil, err
	}
	s.mu.Lock()
	b, ok := s.Objects[bucket+"/"+object]
	s.mu.Unlock()
	if !ok {
		return nil, os.ErrNotExist
	}
	return io.NopCloser(bytes.NewReader(b)), nil
}

// Exists implements storagei.Client.
func (s *Store) Exists(_ context.Context, bucket, object string) (bool, error) {
	if err := s.pre("Exists", bucket, object); err != nil {
		return false, err
	}
	s.mu.Lock()
	_, ok := s.Objects[bucket+"/"+object]
	s.mu.Unlock()
	return ok, nil
}

type writer struct {
	s              *Store
	bucket, object string
	buf            bytes.Buffer
}

func (w *writer) Write(b []byte) (int, error) { return w.buf.Write(b) }
func (w *writer) Close() error {
	if err := w.s.pre("Write", w.bucket, w.object); err != nil {
		return err
	}
	w.s.mu.Lock()
	data := append([]byte(nil), w.buf.Bytes()...)
	w.s.Objects[w.bucket+"/"+w.object] = data
	w.s.Buckets[w.bucket] = true
	w.s.Log = append(w.s.Log, WriteRec{w.bucket, w.object, data})
	w.s.mu.Unlock()
	w.s.post("Write", w.bucket, w.object)
	return nil
}

// Writer implements storagei.Client; the object changes when the writer is closed.
func (s *Store) Writer(_ context.Context, bucket, object string) (io.WriteCloser, error) {
	return &writer{s: s, bucket: bucket, object: object}, nil
}

// IsNotExists implements storagei.Client.
func (s *Store) IsNotExists(err error) bool { return os.IsNotExist(err) }

// EnsureBucketExists implements storagei.Client.
func (s *Store) EnsureBucketExists(_ context.Context, bucket string) error {
	if err := s.pre("EnsureBucketExists", bucket, ""); err != nil {
		return err
	}
	s.mu.Lock()
	s.Buckets[bucket] = true
	s.mu.Unlock()
	return nil
}

// Wipeout implements storagei.Client.
func (s *Store) Wipeout(_ context.Context, bucket string) error {
	if err := s.pre("Wipeout", bucket, ""); err != nil {
		return err
	}
	s.mu.Lock()
	for k := range s.Objects {
		if strings.HasPrefix(k, bucket+"/") {
			delete(s.Objects, k)
		}
	}
	s.mu.Unlock()
	s.post("Wipeout", bucket, "")
	return nil
}

// Names lists object names of a bucket, sorted.
func (s *Store) Names(bucket string) []string {
	var out []string
	s.mu.Lock()
	for k := range s.Objects {
		if strings.HasPrefix(k, bucket+"/") {
			out = append(out, strings.TrimPrefix(k, bucket+"/"))
		}
	}
	s.mu.Unlock()
	sort.Strings(out)
	return out
}

// Get returns an object's bytes.
func (s *Store) Get(bucket, object string) ([]byte, bool) {
	s.mu.Lock()
	defer s.mu.Unlock()
	b, ok := s.Objects[bucket+"/"+object]
	return b, ok
}
