// Package att builds attestations (SEV-SNP reports, TDX quotes) and endorsements with chosen
// measurement tables for the validation harnesses (C01, C02, C09, C17).
package att

import (
	"sync"
	"time"

	epb "github.com/google/gce-tcb-verifier/proto/endorsement"
	"github.com/google/gce-tcb-verifier/sev"
	"github.com/google/gce-tcb-verifier/timeproto"
	"github.com/google/go-sev-guest/abi"
	spb "github.com/google/go-sev-guest/proto/sevsnp"
	sgtest "github.com/google/go-sev-guest/testing"
	"github.com/google/go-tdx-guest/testing/testdata"

	"verifharness/fx"
)

// MrtdOffset is the byte offset of MRTD in a raw TDX v4 quote (48-byte header + 136 into the body).
const MrtdOffset = 184

// Meas returns a distinct 48-byte value for a tag.
func Meas(tag byte) []byte {
	m := make([]byte, 48)
	for i := range m {
		m[i] = tag ^ byte(i*3+1)
	}
	m[0] = tag
	return m
}

// Flip returns a copy with one bit flipped.
func Flip(b []byte, bit int) []byte {
	c := append([]byte(nil), b...)
	c[bit/8] ^= 1 << (bit % 8)
	return c
}

// Report builds a report proto with the given measurement, shaped like the repository's tests.
func Report(meas []byte) *spb.Report {
	return &spb.Report{
		Signature:       []byte("signature"),
		Version:         2,
		GuestSvn:        2,
		ReportData:      make([]byte, abi.ReportSize),
		FamilyId:        make([]byte, abi.FamilyIDSize),
		ImageId:         make([]byte, abi.ImageIDSize),
		Measurement:     meas,
		IdKeyDigest:     make([]byte, abi.IDKeyDigestSize),
		AuthorKeyDigest: make([]byte, abi.AuthorKeyDigestSize),
		HostData:        make([]byte, abi.HostDataSize),
		ReportId:        make([]byte, abi.ReportIDSize),
		ReportIdMa:      make([]byte, abi.ReportIDMASize),
		ChipId:          make([]byte, abi.ChipIDSize),
		Policy:          abi.SnpPolicyToBytes(abi.SnpPolicy{}),
	}
}

var (
	vcek     []byte
	vcekOnce sync.Once
)

// Vcek returns a test VCEK certificate (go-sev-guest test chain), built once.
func Vcek() []byte {
	vcekOnce.Do(func() {
		s, err := sgtest.DefaultTestOnlyCertChain("Milan", fx.T0)
		if err != nil {
			panic(err)
		}
		vcek = s.Vcek.Raw
	})
	return vcek
}

// Snp builds an attestation; endorsement (if non-nil) goes into the certificate-table extras.
func Snp(meas, endorsement []byte) *spb.Attestation {
	cc := &spb.CertificateChain{VcekCert: Vcek()}
	if endorsement != nil {
		cc.Extras = map[string][]byte{sev.GCEFwCertGUID: endorsement}
	}
	return &spb.Attestation{Report: Report(meas), CertificateChain: cc}
}

// TdxQuote returns the go-tdx-guest sample quote with its MRTD replaced (nil keeps the original).
func TdxQuote(mrtd []byte) []byte {
	q := append([]byte(nil), testdata.RawQuote...)
	if mrtd != nil {
		copy(q[MrtdOffset:MrtdOffset+48], mrtd)
	}
	return q
}

// TdxRow is one TDX measurement row.
type TdxRow struct {
	Ram   uint32
	Early bool
	Mrtd  []byte
}

// Golden builds a golden measurement with the given tables (nil map => no SNP section; nil rows
// with tdx=false => no TDX section).
func Golden(snp map[uint32][]byte, svsm []byte, withSnp bool, rows []TdxRow, withTdx bool, ts time.Time) *epb.VMGoldenMeasurement {
	g := &epb.VMGoldenMeasurement{
		Digest:    Meas(0xd1),
		ClSpec:    12345,
		Timestamp: timeproto.To(ts),
	}
	if withSnp {
		g.SevSnp = &epb.VMSevSnp{Svn: 2, Policy: abi.SnpPolicyToBytes(abi.SnpPolicy{SMT: true, MigrateMA: true}),
			Measurements: snp, SvsmMeasurement: svsm}
	}
	if withTdx {
		g.Tdx = &epb.VMTdx{Svn: 2}
		for _, r := range rows {
			g.Tdx.Measurements = append(g.Tdx.Measurements, &epb.VMTdx_Measurement{RamGib: r.Ram, EarlyAccept: r.Early, Mrtd: r.Mrtd})
		}
	}
	return g
}
