module verifharness

go 1.20

require (
	cloud.google.com/go/iam v1.1.6
	cloud.google.com/go/kms v1.15.7
	github.com/google/gce-tcb-verifier v0.2.3-0.20240907002716-116e9ad95165
	github.com/google/gce-tcb-verifier/gcetcbendorsement v0.0.0
	github.com/google/go-sev-guest v0.13.0
	github.com/google/go-tdx-guest v0.3.2-0.20240902060211-1f7f7b9b42b9
	github.com/google/go-tpm-tools v0.4.4
	github.com/google/uuid v1.6.0
	google.golang.org/grpc v1.63.2
	google.golang.org/protobuf v1.34.2
)

require (
	github.com/cyphar/filepath-securejoin v0.2.5 // indirect
	github.com/google/go-configfs-tsm v0.3.2 // indirect
	github.com/google/logger v1.1.1 // indirect
	github.com/pkg/errors v0.9.1 // indirect
	github.com/spf13/cobra v1.8.0 // indirect
	github.com/spf13/pflag v1.0.5 // indirect
	go.uber.org/multierr v1.11.0 // indirect
	golang.org/x/crypto v0.21.0 // indirect
	golang.org/x/exp v0.0.0-20240409090435-93d18d7e34b8 // indirect
	golang.org/x/net v0.23.0 // indirect
	golang.org/x/sys v0.19.0 // indirect
	golang.org/x/term v0.18.0 // indirect
	golang.org/x/text v0.14.0 // indirect
	google.golang.org/genproto v0.0.0-20240227224415-6ceb2ff114de // indirect
	google.golang.org/genproto/googleapis/api v0.0.0-20240227224415-6ceb2ff114de // indirect
	google.golang.org/genproto/googleapis/rpc v0.0.0-20240227224415-6ceb2ff114de // indirect
)

replace github.com/google/gce-tcb-verifier => /repo

replace github.com/google/gce-tcb-verifier/gcetcbendorsement => /repo/gcetcbendorsement
