//go:build !noexport

// Package rpcli runs the relying-party CLI (gcetcbendorsement) in-process through cmd.MakeRoot
// with a harness-chosen backend (clock, getter, in-memory files). Needs the overlay export of the
// backend context key; with build tag noexport the stub in rpcli_noexport.go is used instead.
package rpcli

import (
	"bytes"
	"context"
	"fmt"
	"os"
	"sync"
	"time"

	"github.com/google/gce-tcb-verifier/gcetcbendorsement"
	rpcmd "github.com/google/gce-tcb-verifier/gcetcbendorsement/cmd"
	"github.com/google/gce-tcb-verifier/verify"
)

// Available reports whether in-process CLI runs are possible in this build.
const Available = true

// MemIO is an in-memory cmd.IO.
type MemIO struct {
	mu    sync.Mutex
	Files map[string][]byte
	Out   bytes.Buffer
}

type memWriter struct {
	io   *MemIO
	path string
	buf  bytes.Buffer
}

func (w *memWriter) Write(b []byte) (int, error) { return w.buf.Write(b) }
func (w *memWriter) IsTerminal() bool            { return false }

// Create implements cmd.IO.
func (m *MemIO) Create(path string) (gcetcbendorsement.TerminalWriter, func(), error) {
	w := &memWriter{io: m, path: path}
	return w, func() {
		m.mu.Lock()
		defer m.mu.Unlock()
		if path == "-" {
			m.Out.Write(w.buf.Bytes())
		} else {
			m.Files[path] = append([]byte(nil), w.buf.Bytes()...)
		}
	}, nil
}

// ReadFile implements cmd.IO.
func (m *MemIO) ReadFile(path string) ([]byte, error) {
	m.mu.Lock()
	defer m.mu.Unlock()
	b, ok := m.Files[path]
	if !ok {
		return nil, os.ErrNotExist
	}
	return b, nil
}

// Result is what one CLI run produced.
type Result struct {
	Err      error
	Stdout   []byte
	Files    map[string][]byte
	Panicked any
}

// Run executes the CLI with args on a fresh root command.
func Run(now time.Time, getter verify.HTTPSGetter, files map[string][]byte, args ...string) (res Result) {
	io := &MemIO{Files: map[string][]byte{}}
	for k, v := range files {
		io.Files[k] = v
	}
	ctx := rpcmd.VerifContextWithBackend(context.Background(), &rpcmd.Backend{Now: now, Getter: getter, IO: io})
	root := rpcmd.MakeRoot(ctx)
	root.SetArgs(args)
	root.SetOut(&bytes.Buffer{})
	root.SetErr(&bytes.Buffer{})
	root.SilenceUsage = true
	root.SilenceErrors = true
	func() {
		defer func() {
			if x := recover(); x != nil {
				res.Panicked = x
				res.Err = fmt.Errorf("panic: %v", x)
			}
		}()
		res.Err = root.Execute()
	}()
	res.Stdout = io.Out.Bytes()
	res.Files = io.Files
	return res
}

// RunOS executes the CLI like Run but over the real file system (the repository's own OSIO): paths in
// args are real paths. Used where creating, truncating and replacing files is what is observed.
func RunOS(now time.Time, getter verify.HTTPSGetter, args ...string) (res Result) {
	ctx := rpcmd.VerifContextWithBackend(context.Background(), &rpcmd.Backend{Now: now, Getter: getter, IO: rpcmd.OSIO{}})
	root := rpcmd.MakeRoot(ctx)
	root.SetArgs(args)
	root.SetOut(&bytes.Buffer{})
	root.SetErr(&bytes.Buffer{})
	root.SilenceUsage = true
	root.SilenceErrors = true
	func() {
		defer func() {
			if x := recover(); x != nil {
				res.Panicked = x
				res.Err = fmt.Errorf("panic: %v", x)
			}
		}()
		res.Err = root.Execute()
	}()
	return res
}
