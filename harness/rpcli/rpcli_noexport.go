//go:build noexport

package rpcli

import (
	"errors"
	"time"

	"github.com/google/gce-tcb-verifier/verify"
)

// Available is false when the overlay export does not compile against the current tree.
const Available = false

// Result is what one CLI run produced.
type Result struct {
	Err      error
	Stdout   []byte
	Files    map[string][]byte
	Panicked any
}

// Run is unavailable in this build.
func Run(now time.Time, getter verify.HTTPSGetter, files map[string][]byte, args ...string) Result {
	return Result{Err: errors.New("in-process CLI unavailable (noexport build)")}
}

// RunOS is unavailable in this build.
func RunOS(now time.Time, getter verify.HTTPSGetter, args ...string) Result {
	return Result{Err: errors.New("in-process CLI unavailable (noexport build)")}
}
