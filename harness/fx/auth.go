package fx

import (
	"context"
	"crypto/rand"
	"crypto/rsa"
	"crypto/x509"
	"crypto/x509/pkix"
	"fmt"
	"time"

	"github.com/google/gce-tcb-verifier/endorse"
	"github.com/google/gce-tcb-verifier/keys"
	epb "github.com/google/gce-tcb-verifier/proto/endorsement"
	"github.com/google/gce-tcb-verifier/sign/memca"
	"github.com/google/gce-tcb-verifier/sign/nonprod"
)

// T0 is the fixed "now" of the fixtures: after 2 Aug 2024 (so provenance is demanded) and far from
// the wall clock, so that only the verification time a caller names can make a fixture certificate
// valid - code that falls back to the wall clock rejects everything.
var T0 = time.Date(2040, time.March, 1, 12, 0, 0, 0, time.UTC)

// Authority is an in-memory signer + CA created with the repository's nonprod signer.
type Authority struct {
	Signer   *nonprod.Signer
	CA       *memca.CertificateAuthority
	RootKey  *rsa.PrivateKey
	SignKey  *rsa.PrivateKey
	RootCert *x509.Certificate
	SignCert *x509.Certificate
	RootName string
	SignName string
	// Sibling is a second signing key certified by the same root (not primary).
	SiblingName string
	SiblingKey  *rsa.PrivateKey
	SiblingCert *x509.Certificate
}

func name(cn string, serial int64) *pkix.Name {
	return &pkix.Name{Country: []string{"US"}, Organization: []string{"verif"}, CommonName: cn, SerialNumber: fmt.Sprint(serial)}
}

// NewAuthority makes a root and one signing key, both valid from `now`.
func NewAuthority(now time.Time, tag string) (*Authority, error) {
	return newAuthority(now, tag, false)
}

// NewAuthorityWithSibling also certifies a second (non-primary) signing key under the same root.
func NewAuthorityWithSibling(now time.Time, tag string) (*Authority, error) {
	return newAuthority(now, tag, true)
}

func newAuthority(now time.Time, tag string, sibling bool) (*Authority, error) {
	ca := memca.Create()
	a := &Authority{CA: ca, RootName: tag + "-root", SignName: tag + "-sign", SiblingName: tag + "-sign2"}
	var extra []nonprod.Key
	if sibling {
		extra = []nonprod.Key{{Info: nonprod.KeyInfo{KeyVersionName: a.SiblingName, PkixName: name(tag+" signer 2", 3)}}}
	}
	s, err := nonprod.MakeCustomSigner(context.Background(), &nonprod.Options{
		Now: now, CA: ca, Random: rand.Reader,
		Root:              nonprod.Key{Info: nonprod.KeyInfo{KeyVersionName: a.RootName, PkixName: name(tag+" root", 1)}},
		PrimarySigningKey: nonprod.Key{Info: nonprod.KeyInfo{KeyVersionName: a.SignName, PkixName: name(tag+" signer", 2)}},
		SigningKeys:       extra,
	})
	if err != nil {
		return nil, err
	}
	a.Signer = s
	a.RootKey, a.SignKey = s.Keys[a.RootName], s.Keys[a.SignName]
	a.RootCert, a.SignCert = ca.Certs[a.RootName], ca.Certs[a.SignName]
	if sibling {
		a.SiblingKey, a.SiblingCert = s.Keys[a.SiblingName], ca.Certs[a.SiblingName]
	}
	return a, nil
}

// Ctx returns a context carrying the authority.
func (a *Authority) Ctx() context.Context {
	return keys.NewContext(context.Background(), &keys.Context{CA: a.CA, Signer: a.Signer, Random: rand.Reader})
}

// Roots returns a pool with the authority's root.
func (a *Authority) Roots() *x509.CertPool {
	p := x509.NewCertPool()
	p.AddCert(a.RootCert)
	return p
}

// SignGolden signs a golden measurement through the real endorse.SignDoc.
func (a *Authority) SignGolden(doc *epb.VMGoldenMeasurement, ts time.Time) (*epb.VMLaunchEndorsement, error) {
	ctx := endorse.NewContext(a.Ctx(), &endorse.Context{Timestamp: ts})
	return endorse.SignDoc(ctx, doc)
}
