// Package fx holds fixtures shared by the property harnesses: a raw firmware-image builder that
// does not use the repository's encoders, and key/authority helpers.
package fx

import (
	"encoding/binary"
	"encoding/hex"
	"strings"
)

// GUIDs of the firmware GUID table (from the edk2 sources).
const (
	FooterGUID       = "96b582de-1fb2-45f7-baea-a366c55a082d"
	SevEsResetGUID   = "00f771de-1a7e-4fcb-890e-68c77e2fb44e"
	SevMetaOffGUID   = "dc886566-984a-4798-a75e-5585a7bf67cc"
	TdxMetaOffGUID   = "e47a6535-984a-4798-865e-4685a7bf8ec2"
	TdxMetadataGUID  = "e9eaf9f3-168e-44d5-a8eb-7f4d8738f6ae"
	TableEndOffset   = 0x20
	GuidEntryHdrSize = 18
)

// EfiGUID encodes a textual GUID in the mixed-endian EFI_GUID layout.
func EfiGUID(s string) []byte {
	b, err := hex.DecodeString(strings.ReplaceAll(s, "-", ""))
	if err != nil || len(b) != 16 {
		panic("bad guid " + s)
	}
	out := make([]byte, 16)
	out[0], out[1], out[2], out[3] = b[3], b[2], b[1], b[0]
	out[4], out[5] = b[5], b[4]
	out[6], out[7] = b[7], b[6]
	copy(out[8:], b[8:])
	return out
}

// TableEntry is one GUIDed block: Data followed by {size u16, guid}.
type TableEntry struct {
	GUID string
	Data []byte
}

// SevSection is one SEV metadata section.
type SevSection struct{ Address, Length, Kind uint32 }

// TdxSection is one TDVF metadata section.
type TdxSection struct {
	DataOffset, DataSize   uint32
	MemoryBase, MemorySize uint64
	Type, Attributes       uint32
}

// ImageSpec describes a synthetic firmware image.
type ImageSpec struct {
	Size       int
	Fill       func(img []byte) // contents, applied first
	ResetAddr  uint32
	NoReset    bool
	Sev        []SevSection
	NoSev      bool
	SevMetaAt  int // offset from start where the SEV metadata header is placed (default 0)
	Tdx        []TdxSection
	NoTdx      bool
	TdxMetaAt  int // offset from start of the TDX metadata GUID (default 0x400)
	ExtraFirst []TableEntry // entries placed nearest the footer
}

func le32(v uint32) []byte { b := make([]byte, 4); binary.LittleEndian.PutUint32(b, v); return b }

// SevMetadataBytes encodes the SEV metadata header and sections.
func SevMetadataBytes(secs []SevSection) []byte {
	out := []byte{'A', 'S', 'E', 'V'}
	out = append(out, le32(uint32(16+12*len(secs)))...)
	out = append(out, le32(1)...)
	out = append(out, le32(uint32(len(secs)))...)
	for _, s := range secs {
		out = append(out, le32(s.Address)...)
		out = append(out, le32(s.Length)...)
		out = append(out, le32(s.Kind)...)
	}
	return out
}

// TdxMetadataBytes encodes GUID + descriptor + sections.
func TdxMetadataBytes(secs []TdxSection) []byte {
	out := append([]byte{}, EfiGUID(TdxMetadataGUID)...)
	out = append(out, 'T', 'D', 'V', 'F')
	out = append(out, le32(uint32(16+32*len(secs)))...)
	out = append(out, le32(1)...)
	out = append(out, le32(uint32(len(secs)))...)
	for _, s := range secs {
		b := make([]byte, 32)
		binary.LittleEndian.PutUint32(b[0:], s.DataOffset)
		binary.LittleEndian.PutUint32(b[4:], s.DataSize)
		binary.LittleEndian.PutUint64(b[8:], s.MemoryBase)
		binary.LittleEndian.PutUint64(b[16:], s.MemorySize)
		binary.LittleEndian.PutUint32(b[24:], s.Type)
		binary.LittleEndian.PutUint32(b[28:], s.Attributes)
		out = append(out, b...)
	}
	return out
}

// Layout records where things ended up, for field-level deviations.
type Layout struct {
	FooterOff   int // offset of the footer entry {size,guid}
	TableStart  int
	ResetOff    int // offset of the reset block entry (addr u32, size u16, guid), -1 if absent
	SevOffOff   int // offset of the SEV metadata-offset entry, -1 if absent
	TdxOffOff   int
	SevMetaOff  int
	TdxMetaOff  int // offset of the TDX metadata GUID
	TdxDescOff  int // offset of the TDVF descriptor
}

// Build renders the image.
func Build(sp ImageSpec) ([]byte, Layout) {
	img := make([]byte, sp.Size)
	if sp.Fill != nil {
		sp.Fill(img)
	}
	lay := Layout{ResetOff: -1, SevOffOff: -1, TdxOffOff: -1, SevMetaOff: -1, TdxMetaOff: -1, TdxDescOff: -1}
	var entries []TableEntry // nearest the footer first
	entries = append(entries, sp.ExtraFirst...)
	if !sp.NoReset {
		entries = append(entries, TableEntry{SevEsResetGUID, le32(sp.ResetAddr)})
	}
	if !sp.NoSev {
		meta := SevMetadataBytes(sp.Sev)
		copy(img[sp.SevMetaAt:], meta)
		lay.SevMetaOff = sp.SevMetaAt
		entries = append(entries, TableEntry{SevMetaOffGUID, le32(uint32(sp.Size - sp.SevMetaAt))})
	}
	if !sp.NoTdx {
		at := sp.TdxMetaAt
		if at == 0 {
			at = 0x400
		}
		meta := TdxMetadataBytes(sp.Tdx)
		copy(img[at:], meta)
		lay.TdxMetaOff = at
		lay.TdxDescOff = at + 16
		entries = append(entries, TableEntry{TdxMetaOffGUID, le32(uint32(sp.Size - at - 16))})
	}
	// Footer.
	total := GuidEntryHdrSize
	for _, e := range entries {
		total += len(e.Data) + GuidEntryHdrSize
	}
	pos := sp.Size - TableEndOffset - GuidEntryHdrSize
	lay.FooterOff = pos
	binary.LittleEndian.PutUint16(img[pos:], uint16(total))
	copy(img[pos+2:], EfiGUID(FooterGUID))
	for _, e := range entries {
		sz := len(e.Data) + GuidEntryHdrSize
		pos -= sz
		copy(img[pos:], e.Data)
		binary.LittleEndian.PutUint16(img[pos+len(e.Data):], uint16(sz))
		copy(img[pos+len(e.Data)+2:], EfiGUID(e.GUID))
		switch e.GUID {
		case SevEsResetGUID:
			lay.ResetOff = pos
		case SevMetaOffGUID:
			lay.SevOffOff = pos
		case TdxMetaOffGUID:
			lay.TdxOffOff = pos
		}
	}
	lay.TableStart = pos
	return img, lay
}

// DefaultSev is the three mandatory sections at the addresses the repository's tests use.
func DefaultSev() []SevSection {
	return []SevSection{{0xff001000, 0x1000, 1}, {0xff003000, 0x1000, 3}, {0xff004000, 0x1000, 2}}
}

// SmallTdx is a TDVF layout that fits an image of `size` bytes (>= 0x3000): one BFV covering the
// top pages (extended), one CFV page, a hand-off block and a temp-memory range.
func SmallTdx(size int) []TdxSection {
	bfv := uint32(size - 0x1000)
	return []TdxSection{
		{DataOffset: 0x1000, DataSize: bfv, MemoryBase: 0x100000000 - uint64(bfv), MemorySize: uint64(bfv), Type: 0, Attributes: 1},
		{DataOffset: 0, DataSize: 0x1000, MemoryBase: 0x100000000 - uint64(size), MemorySize: 0x1000, Type: 1},
		{MemoryBase: 0x809000, MemorySize: 0x2000, Type: 2},
		{MemoryBase: 0x800000, MemorySize: 0x6000, Type: 3},
	}
}

// PatternFill writes a per-page distinct pattern.
func PatternFill(img []byte) {
	for i := range img {
		img[i] = byte(i>>12) ^ byte(i*7)
	}
}

// SmallImage returns a size-byte image valid for SEV-SNP and TDX.
func SmallImage(size int) []byte {
	img, _ := Build(ImageSpec{Size: size, Fill: PatternFill, ResetAddr: 0xff0000ff, Sev: DefaultSev(), Tdx: SmallTdx(size), SevMetaAt: 0x800, TdxMetaAt: 0x400})
	return img
}
