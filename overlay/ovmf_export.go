//go:build verif

package ovmf

// VerifUnacceptedMemRanges exports unacceptedMemRanges for small-scope exhaustive interval checks
// (add-only, build tag verif, injected by the /verif overlay; not part of the repository).
func VerifUnacceptedMemRanges(private, ram []GuestPhysicalRegion) []GuestPhysicalRegion {
	return unacceptedMemRanges(private, ram)
}
