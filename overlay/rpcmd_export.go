//go:build verif

package cmd

import "context"

// VerifContextWithBackend exposes the unexported backend context key so that the harness can run
// the CLI in-process with a chosen clock, getter and IO (add-only, build tag verif, overlay only).
func VerifContextWithBackend(ctx context.Context, b *Backend) context.Context {
	return context.WithValue(ctx, backendKey, b)
}
