//go:build verif

package endorse

import (
	"context"
	"io"

	epb "github.com/google/gce-tcb-verifier/proto/endorsement"
	rpb "github.com/google/gce-tcb-verifier/proto/releases"
)

// VerifAddEndorsementEntry exports addEndorsementEntry (add-only, build tag verif, overlay only).
func VerifAddEndorsementEntry(ctx context.Context, entries []*rpb.VMEndorsementMap_Entry, entry *rpb.VMEndorsementMap_Entry) []*rpb.VMEndorsementMap_Entry {
	return addEndorsementEntry(ctx, entries, entry)
}

// VerifMakeEvents exports makeEvents (add-only, build tag verif, overlay only).
func VerifMakeEvents(random io.Reader, endorsement *epb.VMLaunchEndorsement) ([]byte, error) {
	return makeEvents(random, endorsement)
}
