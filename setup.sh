#!/bin/bash
# Builds the framework offline from files on disk: instrumenter + every property harness
# (warms the Go build cache so each check's rebuild is incremental).
set -u
export GOFLAGS=-mod=mod GOPROXY=off GOSUMDB=off GOTOOLCHAIN=local GOWORK=off
cd /verif/harness || exit 1
mkdir -p /verif/build /verif/evidence /verif/replays
go build -o /verif/build/instr ./cmd/instr || exit 1
rc=0
for d in cmd/c*/; do
  p=$(basename $d); P=$(echo $p | tr a-z A-Z)
  /verif/build/instr -prop $P -repo /repo -verif /verif -out /verif/build/ov-$p >/dev/null || rc=1
  go build -tags verif -overlay /verif/build/ov-$p/overlay.json -o /verif/build/$p ./cmd/$p || rc=1
done
exit $rc
